"""Common machinery: bootstrap of the code under test, evidence, known findings, replays, parallel map.

Everything here is harness code; nothing decides a property.
"""
from __future__ import annotations

import atexit
import hashlib
import json
import os
import shutil
import subprocess
import sys
import time

VERIF = os.path.dirname(os.path.dirname(os.path.abspath(__file__)))
REPO = os.environ.get("VERIF_REPO", "/repo")
GUARD = "AVOCADO_I2N_VERIF"
EXIT_OK, EXIT_VIOLATION, EXIT_HARNESS = 0, 1, 2

_workdir = None


class HarnessError(Exception):
    """Something is wrong with the harness itself (never reported as a violation)."""


def workdir() -> str:
    """Per-process scratch directory under /verif/.work, removed at exit."""
    global _workdir
    if _workdir is None or not os.path.isdir(_workdir):
        base = os.path.join(VERIF, ".work")
        os.makedirs(base, exist_ok=True)
        _workdir = os.path.join(base, f"w{os.getpid()}_{int(time.time() * 1000) % 100000000}")
        os.makedirs(_workdir, exist_ok=True)
        owner = os.getpid()

        def _cleanup(path=_workdir, owner=owner):
            if os.getpid() == owner:
                shutil.rmtree(path, ignore_errors=True)

        atexit.register(_cleanup)
    return _workdir


def build_minisuite(dest: str, extra_cfg: dict[str, str] | None = None) -> str:
    """Assemble a mini-suite: shipped sets/groups/nets/vms configs verbatim from the repository's
    working tree plus the trimmed guest configs kept in /verif/minisuite."""
    src = os.path.join(REPO, "tp_folder")
    os.makedirs(os.path.join(dest, "configs"), exist_ok=True)
    for sub in ("controls", "tools", "utils"):
        os.makedirs(os.path.join(dest, sub), exist_ok=True)
    for name in ("groups.cfg", "nets.cfg", "objects-overwrite.cfg", "sets-overwrite.cfg", "sets.cfg", "vms.cfg"):
        shutil.copy(os.path.join(src, "configs", name), os.path.join(dest, "configs", name))
    mini = os.path.join(VERIF, "minisuite", "configs")
    for name in os.listdir(mini):
        shutil.copy(os.path.join(mini, name), os.path.join(dest, "configs", name))
    for name in os.listdir(os.path.join(src, "controls")):
        shutil.copy(os.path.join(src, "controls", name), os.path.join(dest, "controls", name))
    for name, content in (extra_cfg or {}).items():
        with open(os.path.join(dest, "configs", name), "w") as f:
            f.write(content)
    return dest


_bootstrapped = None


def bootstrap(suite: str = "mini", suite_dir: str | None = None, tests_overwrite: str | None = None) -> str:
    """Make `avocado_i2n` importable from the repository's working tree and point it to a suite.

    suite: "mini" (trimmed guest configs), "shipped" (tp_folder of the repo) or "custom" (suite_dir given).
    Returns the suite path.  HOME is redirected to the scratch dir (overwrite cfgs are generated there).
    """
    global _bootstrapped
    os.environ[GUARD] = "1"
    os.environ.setdefault("PYTHONHASHSEED", "0")
    wd = workdir()
    # one HOME per suite: the overwrite cfg files generated there include the suite's own configs and parsed recipes keep their absolute names
    # tests_overwrite: a user's own ~/avocado_overwrite_tests.cfg content (suite variant "mini+<hash>": same suite, customised tests)
    home = os.path.join(wd, "home-" + (suite if suite != "custom" else stable_hash(suite_dir)) + ("-" + stable_hash(tests_overwrite) if tests_overwrite else ""))
    os.makedirs(home, exist_ok=True)
    os.environ["HOME"] = home
    if REPO not in sys.path[:1]:
        sys.path.insert(0, REPO)
    import logging

    logging.disable(logging.CRITICAL)
    from avocado.core.settings import settings
    from avocado_i2n import params_parser  # noqa: F401  (registers the option with its default)

    import avocado_i2n

    if not os.path.abspath(avocado_i2n.__file__).startswith(os.path.abspath(REPO) + os.sep):
        raise HarnessError(f"avocado_i2n imported from {avocado_i2n.__file__}, expected under {REPO}")
    if suite == "mini":
        path = os.path.join(wd, "suite")
        if not os.path.isdir(os.path.join(path, "configs")):
            build_minisuite(path)
    elif suite == "shipped":
        path = os.path.join(REPO, "tp_folder")
    else:
        path = suite_dir
    settings.update_option("i2n.common.suite_path", path)
    if tests_overwrite:
        with open(os.path.join(home, "avocado_overwrite_tests.cfg"), "w") as f:
            f.write("# Use this config to override with test nodes configuration\ninclude " + os.path.join(path, "configs", "sets-overwrite.cfg") + "\n" + tests_overwrite)
    _bootstrapped = (suite, path)
    return path


def stable_hash(obj) -> str:
    return hashlib.sha1(json.dumps(obj, sort_keys=True, default=repr).encode()).hexdigest()[:16]


# ---------------------------------------------------------------------------------------------
# known findings
# ---------------------------------------------------------------------------------------------

def load_known_findings(prop: str) -> list[dict]:
    path = os.path.join(VERIF, "known_findings.jsonl")
    out = []
    if os.path.exists(path):
        with open(path) as f:
            for line in f:
                line = line.strip()
                if not line or line.startswith("#"):
                    continue
                rec = json.loads(line)
                if rec.get("property") == prop:
                    out.append(rec)
    return out


# ---------------------------------------------------------------------------------------------
# result reporting
# ---------------------------------------------------------------------------------------------

class Violation:
    def __init__(self, prop: str, what: str, replay: dict, signature: dict | None = None):
        self.prop, self.what, self.replay, self.signature = prop, what, replay, signature or {}

    def key(self) -> str:
        # one replay artefact per distinct signature (the first, i.e. simplest, instance is kept)
        return stable_hash({"sig": self.signature} if self.signature else {"what": self.what})


class Report:
    """Collects what a check covered and what it found; writes evidence; decides the exit code."""

    def __init__(self, prop: str, tier: str, seed: int, technique: str):
        self.prop, self.tier, self.seed, self.technique = prop, tier, seed, technique
        self.t0 = time.time()
        self.states = 0
        self.transitions = 0
        self.evaluations = 0
        self.traces_validated = 0
        self.distinct = set()
        self.samples = []
        self.violations: list[Violation] = []
        self.notes: list[str] = []
        self.assumptions: list[str] = []
        self.bounds: dict = {}
        self.extra: dict = {}
        self.exhaustive = True
        self.rule = ""
        self.sections: dict = {}
        self._vkeys = set()

    def sample(self, s, limit=6):
        if len(self.samples) < limit:
            self.samples.append(s)

    def note(self, text: str):
        if text not in self.notes and len(self.notes) < 50:
            self.notes.append(text)

    def violation(self, what: str, replay: dict, signature: dict | None = None):
        v = Violation(self.prop, what, replay, signature)
        self.violation_instances = getattr(self, "violation_instances", 0) + 1
        if v.key() not in self._vkeys:
            self._vkeys.add(v.key())
            self.violations.append(v)

    def finish(self, matcher=None) -> int:
        """Write evidence, print KNOWN-FINDING / VIOLATION lines and return the exit code.

        matcher(known_entry, violation) -> bool decides whether a violation is one of the listed known findings.
        """
        known = [k for k in load_known_findings(self.prop) if k.get("status") == "known"]
        fresh, matched = [], {}
        for v in self.violations:
            hit = None
            for k in known:
                if (matcher or default_matcher)(k, v):
                    hit = k
                    break
            if hit is None:
                fresh.append(v)
            else:
                matched.setdefault(json.dumps(hit.get("signature"), sort_keys=True), (hit, []))[1].append(v)
        for hit, vs in matched.values():
            print(f"KNOWN-FINDING: property={self.prop} {hit.get('what', '')} (instances this run: {len(vs)})")
        replay_paths = []
        for v in fresh[:20]:
            d = os.path.join(VERIF, "replays", self.prop)
            os.makedirs(d, exist_ok=True)
            p = os.path.join(d, v.key() + ".json")
            with open(p, "w") as f:
                json.dump({"property": self.prop, "what": v.what, "signature": v.signature, "replay": v.replay},
                          f, indent=1, default=repr)
            replay_paths.append(p)
            print(f"VIOLATION property={self.prop} replay={p}")
            print(f"  what: {v.what}")
        wall = time.time() - self.t0
        coverage = {
            "states": int(self.states),
            "transitions": int(self.transitions),
            "traces_validated_against_impl": int(self.traces_validated),
            "evaluations": int(self.evaluations),
            "distinct_nontrivial": len(self.distinct),
            "rule": self.rule,
            "samples": self.samples or ["<none>"],
            "exhaustive": bool(self.exhaustive),
            "bounds": self.bounds,
            "technique": self.technique,
            "notes": self.notes,
            "known_findings_matched": sum(len(vs) for _, vs in matched.values()),
        }
        coverage.update(self.extra)
        if self.sections:
            coverage["sections"] = self.sections
        ev = {
            "property_id": self.prop,
            "tier": self.tier,
            "seed": int(self.seed),
            "level": "model_checking",
            "coverage": coverage,
            "assumptions": self.assumptions,
            "wall_s": round(wall, 2),
            "violations": len(fresh),
        }
        write_evidence(self.prop, ev)
        status = "VIOLATED" if fresh else "held"
        print(f"[{self.prop}] {status}: states={self.states} transitions={self.transitions} evaluations={self.evaluations} "
              f"distinct={len(self.distinct)} impl_traces={self.traces_validated} exhaustive={self.exhaustive} "
              f"known={coverage['known_findings_matched']} wall={wall:.1f}s")
        for n in self.notes[:10]:
            print(f"  note: {n}")
        return EXIT_VIOLATION if fresh else EXIT_OK


def default_matcher(known: dict, v: Violation) -> bool:
    sig = known.get("signature", {})
    return bool(sig) and all(v.signature.get(k) == val for k, val in sig.items())


def write_evidence(prop: str, ev: dict):
    d = os.path.join(VERIF, "evidence")
    alt = os.environ.get("VERIF_REPO")
    if alt and os.path.realpath(alt) != os.path.realpath("/repo"):
        # a run against a scratch copy of the repository (seeded or benign change): never overwrite the evidence of the tree itself
        d = os.path.join(workdir(), "evidence-scratch")
    os.makedirs(d, exist_ok=True)
    path = os.path.join(d, f"{prop}.json")
    tmp = path + f".tmp{os.getpid()}"
    with open(tmp, "w") as f:
        json.dump(ev, f, indent=1, default=repr)
    os.replace(tmp, path)
    schema = "/root/.vp/EVIDENCE.schema.json"
    if not os.path.exists(schema):
        schema = os.path.join(VERIF, "vt", "EVIDENCE.schema.json")
    vt = shutil.which("python3-vt")
    if vt and os.path.exists(schema):
        code = ("import json,sys,jsonschema; jsonschema.validate(json.load(open(sys.argv[1])), json.load(open(sys.argv[2])))")
        env = {k: v for k, v in os.environ.items() if not k.startswith("PYTHON")}
        r = subprocess.run([vt, "-c", code, path, schema], capture_output=True, text=True, env=env)
        if r.returncode != 0:
            raise HarnessError("evidence does not validate: " + r.stderr[-2000:])


# ---------------------------------------------------------------------------------------------
# parallel map over long-lived forked workers
# ---------------------------------------------------------------------------------------------

def ncpu() -> int:
    try:
        return max(1, min(int(os.environ.get("VERIF_PROCS", "0")) or len(os.sched_getaffinity(0)), 32))
    except Exception:
        return 4


def pmap(func, items, procs: int | None = None, chunksize: int = 1):
    """Ordered parallel map with forked long-lived workers (state built before the call is inherited)."""
    items = list(items)
    procs = min(procs or ncpu(), max(1, len(items)))
    if procs <= 1 or len(items) <= 1:
        return [func(i) for i in items]
    import multiprocessing as mp

    ctx = mp.get_context("fork")
    with ctx.Pool(procs) as pool:
        return pool.map(func, items, chunksize=chunksize)


def pimap_unordered(func, items, procs: int | None = None, chunksize: int = 1):
    items = list(items)
    procs = min(procs or ncpu(), max(1, len(items)))
    if procs <= 1 or len(items) <= 1:
        for i in items:
            yield func(i)
        return
    import multiprocessing as mp

    ctx = mp.get_context("fork")
    with ctx.Pool(procs) as pool:
        yield from pool.imap_unordered(func, items, chunksize=chunksize)


def budget(tier: str, quick: float, thorough: float) -> float:
    if os.environ.get("VERIF_BUDGET_S"):
        return float(os.environ["VERIF_BUDGET_S"])
    return quick if tier == "quick" else thorough
