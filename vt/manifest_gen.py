"""Generates /verif/MANIFEST.json from the table below (python3 -m vt.manifest_gen)."""
import json
import os

VERIF = os.path.dirname(os.path.dirname(os.path.abspath(__file__)))
PY = "/venv/bin/python"

# property -> (engine, technique, level text, level note, design ref)
CHECKS = {
    "C17": ("seqmc", "bounded exhaustive input enumeration vs set-intersection model",
            "Every assignment of state-name subsets (all listing orders) to 1..3 images and to the memory-file directory is run through the real "
            "QCOW2VTBackend.show / RamfileBackend._show and compared with plain set intersection; every listing of 1-2 (thorough 3) snapshots over a "
            "tag x vm-size alphabet is run through the real on/off listing code. Exhaustive within these bounds, which cover every branch of the two functions.",
            "QemuImg and os are substituted as the selftests do; listings follow qemu's snapshot dump format; names limited to three states.", "§4 C17"),
}


E1NOTE = "Trusted: CPython asyncio Task semantics; the world model of tests and state pools (what a test does is modelled: duration, outcome, state effects; its answers are those of pre_state.control over the pool scopes); virttest's Cartesian parser; mini-suite = shipped sets/groups/nets/vms configs with trimmed guest configs. Bounds: <=4 workers, deviation bound k per scenario as written in the evidence, durations from a 3-5 value alphabet below the timeout."

def e1(text):
    return ("travmc", "stateless deviation-bounded model checking of the real asyncio traversal under a virtual-time scheduler", text, E1NOTE, "§2.1, §4")

CHECKS.update({
    "C01": e1("Every execution of the real traversal coroutines (all workers, real run/clean/retry policies, real pull_locations/scan_states) is enumerated over test durations, PASS/FAIL placements and tie orders with at most k deviations from the default schedule, from every enumerated initial population of the shared pool and of single workers' own pools, plus replay and retry settings; at each test start the world model decides whether each required state is reachable through the worker's own pool or a named, scope-enabled location. Exhaustive within the stated bounds; residue in a foreign own pool is a recorded known finding."),
    "C02": e1("Same exploration with outcome alphabet PASS/FAIL/ERROR/WARN/SKIP/result-never-reported, persistent failure of each setup test and of the creation steps, max_tries 1..3, restricted workers, lazy and eager parsing, dry run; oracle: the gather completes within the horizon without traversal error or deadlock, every selected compatible test has an execution, no UNKNOWN result or started marker remains, a dry run executes nothing and changes no state."),
    "C03": e1("Same exploration over pool_scope subsets, lxc/remote/serial spawners, max_tries/max_concurrent_tries, initial pools (all subsets of the vm1 chain in shared / own pools); oracle: executions per (worker-invariant test, reuse scope) <= max_tries, creation attempts counted per object, no execution after an all-present first examination in that scope, no flat/clone-source execution."),
    "C04": e1("Same exploration with overlapping durations (up to 5 and 9 back-off periods, incl. durations just below a 10-period timeout budget) and 2-4 workers converging on one setup chain; oracle: sweep over execution intervals per (test, scope) <= configured max_concurrent_tries (two-step creation as one interval), each back-off sleep <= max(test_timeout*max_tries/1000, 0.1) with nothing held while sleeping."),
    "C05": e1("Same exploration over graphs with removable (unset_mode f.) states at several depths (tutorial_gui / tutorial_get, lazy and eager), unset_mode / pool_filter / retry settings; oracle (post hoc on the complete trace): every unset request concerns a state marked f., no dependant is running at that instant or starts later without re-creation, no copy request with the default pool filter, unmarked setup is never unset."),
    "C10": e1("Every outcome sequence over the seven reportable statuses up to max_tries per test is enumerated on the real traversal for each max_tries / rerun_status / stop_status setting (one worker: exact execution count against a decision-table reference; two workers: all schedules within k, no execution may start once the statuses obtained so far forbid it), invalid settings must end in an error, replays of a previous job with every assignment of previous results x states present/missing, distinct uids, per-try result read-back, and all_results_ok() against the recorded results."),
    "C15": e1("The real intertest_setup.update is run on the virtual-time loop (selftest job seam, world model) for all (from_state,to_state) pairs along vm1's declared chain incl. non-existent names, default and explicit remove_set, 1-2 vms, 1-3 workers, default schedule plus every single duration/tie deviation for multi-worker cases; expected path and derived states come from an own resolver over the flat Cartesian declarations: each path test runs exactly once, exactly the derived states of the selected vms are removed on every worker, nothing else runs or is removed, non-existent states are rejected without side effects."),
    "C20": e1("The real Manu.run (real params_from_cmd, real tools) is run on the virtual-time loop for chains of length 1-3 over check/get/set/unset/push/pop/boot/shutdown/noop x vm selections x worker sets with restricted workers first/middle/last, plus one failing execution at every position; oracle: per step the multiset of executions is exactly one per (selected vm, compatible worker) (one per worker covering all vms for boot/shutdown) with the step's vm_action and state parameter, no unselected vm, steps in order, return code 1 iff an execution failed with later steps still run."),
    "C08": e1("Same exploration over mixed restricted workers, swarms and clusters, retries and replay; oracle at every test start: executing worker == the worker the test was parsed for, its nets_* parameters equal the worker's, its vm variants satisfy the worker's only/no restrictions, and for each required state the workers named in get_location are exactly those with a completed PASS execution (or replayed PASS result) of a producer, the shared pool is always named, and the named workers' access parameters are theirs."),
})

def e2(text, note):
    return ("seqmc", "bounded exhaustive operation-sequence / input enumeration on the real functions vs a reference model", text, note, "§2.2, §4")

CHECKS.update({
    "C12": e2("Every cell of operation x two mode letters over {a,r,i,f,other} x state present/absent x root present/absent x root keyword/ordinary state x object level (chains of depth 1-3, 1-3 vms, 1-2 images) x check mode, plus skip_types x readonly x addressed-object cells, is executed on the real states.setup over an in-memory backend and compared (outcome, store, touched objects) with the README table transcribed as data; then BFS over check/get/set/unset/push/pop sequences from every initial store against a set-of-names model.",
               "Reference = README table + the root rules documented in the code's messages; in-memory backend registered in BACKENDS as the selftests do; sequence depth 2 (quick) / 3 (thorough)."),
    "C11": e2("All argument lists of length <=2 (thorough <=3), any order and multiplicity, over an alphabet of 17 (28) only/no/only_vmX/no_vmX/vms/nets/only_nets/K=V/malformed/unknown arguments through the real params_from_cmd; (i) a reference tokenizer written from the README gives the expected test restriction lines, vm restrictions, selected vms, parameters and error class; (ii) an own 20-line matcher for the Cartesian , .. . operators over the universe of flat test and vm variants gives the expected selection, compared with the real parse_flat_nodes / parse_flat_objects; (iii) every K=V is seen by every selected test; documented equivalences compared differentially.",
               "Trusted: virttest's Cartesian parser for the unrestricted universe; mini-suite with the shipped sets/groups/nets/vms configs."),
    "C13": e2("Every cell of owner (lxc worker, remote cluster worker) x pool_scope subset x ordered source list (length <=3, thorough 4) over 7 source kinds incl. a foreign gateway re-using the owner's host name x placement of the state among sources and cache x cache validity x show/get/set/unset on the real SourcedStateBackend with a recording transport, against reference scope/closeness functions written from the statement; plus root cells (pool_scope x local/pool root x validity x object type) on RootSourcedStateBackend.",
               "_show/_get/_set/_unset and the transport are recording stubs (the attributes the selftests substitute); the qcow2 chain transfer itself is not exercised."),
    "C14": ("procmc", "preemption-bounded stateless model checking of simulated processes around image_lock with a kernel-validated POSIX lock model; exhaustive sequential pre-state cells",
            "All schedules with <=2 (thorough 3) preemptions of every pair (thorough also triples) of {upload A, upload B, download, delete, download_link} running the real TransferOps on one pool path from each pool pre-state, a three-process set with a deleter at bound 3, plus a crash or an injected OSError at every scheduling point of every process; oracle: operations of different processes on the pool file never overlap, nobody touches it without holding the lock, a timed-out waiter does nothing, the final content is a whole version, no lock survives. Sequentially: all 6 cache states x 3 pool states x 6 operations (source unchanged, destination identical, skip when equal, link mode never replaces data nor uploads a link).",
            "Simulated processes share an interpreter; the lock model (per inode, released by unlock/any close/exit) is replayed against the real kernel with two real processes for all operation sequences up to depth 4 (5). Remote transfers are not exercised.", "§2.3, §4 C14"),
    "C16": e2("All sets of <=3 (thorough 4) parser-shaped names, all insertion orders, all dotted queries of <=3 variants over the alphabet through PrefixTree.get/__contains__ and TestGraph.get_nodes_by_name vs a naive contiguous-subsequence scan; BFS over drop/pick register sequences (depth 3 / 5) on the real bridged nodes of a parsed two-worker graph vs a dict-of-counters model, every counter/worker query compared on every copy.",
               "Names restricted as the statement says (set variant first, no repeated variant); alphabet of 2 set variants and 3-4 inner variants."),
    "C18": e2("BFS over reattach/allocate sequences (depth 3 / 4) replayed on freshly built real VMNetwork objects for 4-5 topologies (1-4 vms, 2-3 nics, prefixes /16../30, shared and separate subnets) with an ipaddress-based invariant after every successful operation; every address of each range handed out once then exhaustion; all 33 prefix lengths both ways; translation for all host offsets of small subnets and boundary offsets of large ones.",
               "DHCP ranges inside the subnet and disjoint from static addresses; proxy-arp reattach and change_network_address are outside the statement; enumerated subnet family instead of random subnets."),
    "C19": e2("The full product local{nic,internetip,custom x2,unsupported} x remote{custom,externalip,modeconfig,unsupported} x peer{ip,dynip,unsupported} x auth{none,pubkey,psk x 4 id pairs,unsupported} x end point pairs x 3 topologies (separate LANs, multi-homed host, shared LAN) through the real VMTunnel constructor; mirror relations, swapped psk identities, the counterpart table for the derived right-hand types, ValueError for unsupported types, and connects_nodes(a,b)==connects_nodes(b,a) for all node pairs.",
               "Inputs follow the callers' convention (nic keys present); three enumerated topologies instead of random networks."),
})

def e4(text):
    return ("parsemc", "exhaustive enumeration of parser inputs over a finite family with independent oracles on the real parser's output", text,
            "Exhaustive over the stated finite input family (suite sets x groups x vm restrictions x worker sets), not over all restriction strings; trusted: virttest's Cartesian parser; mini-suite keeps the shipped sets/groups/nets/vms configs.", "§2.4, §4")

CHECKS.update({
    "C06": e4("Each input is parsed up front and lazily (real dry-run traversal); an own graph walk checks: acyclic, one starting node reaching every node, every dependency recorded on both ends with equal object sets, unique identities and names, per required (object, state) exactly one parent of the same worker and object variant producing exactly that state, one network object first, vm objects = vms parameter, clone sources not runnable."),
    "C07": e4("For every composite node and object the declared get restriction is resolved by an own implementation of the Cartesian , .. . operators over the flat variants of the set `all` (filtered by the producers' own vm restrictions); each attached parent must be the composition of a declared producer with the same object variant and worker, every declared producer must be represented, multi-producer dependencies must be cloned once per producer with cloned dependants, and internal setup is represented once per worker."),
    "C09": e4("For every pair of workers each equivalent node exists unless the worker's own restrictions exclude it, has the same dependencies, is linked both ways and shares the four visit registers (object identity); the lazily expanded graph (real dry-run traversal) is a sub-graph of the complete parse with identical dependencies covering every test; two parses of one input are equal. Lazy expansion under other schedules is exercised by the traversal checks C01-C05."),
})

PLANNED = {}

MATRIX = (" The core selection is also run under every configuration of the matrix worker kind (lxc / remote / serial / mixed) x pool_scope (every "
          "enumerated subset containing 'own') x slot binding (container, serial, remote slots). Deviation bounds are iterated level by level; the evidence "
          "reports the bound completed per scenario (small scenarios: all choice sequences). Every pair of non-default run settings (scope, retries, "
          "timeouts incl. the stock 3600 s, dry run, pool filter, slots, unset mode, lazy parsing) is run on a setup+leaf selection; previous jobs are "
          "loaded from results.json files by the runner's own loader; worker sessions come from the real get_session over a login stand-in; one extra "
          "scenario runs on the mini-suite customised through the user's overwrite config (an edge based on two objects).")
ADDENDA = {
    "C01": MATRIX, "C02": MATRIX, "C03": MATRIX + " The reuse scope of the oracle follows pool_scope alone (worker / swarm / run).", "C04": MATRIX, "C08": MATRIX,
    "C07": " The same oracle is applied to the graph expanded on demand by a dry-run traversal (no test represented twice per worker).",
    "C09": " Lazy expansion is also explored under all schedules within k for nine lazy scenarios incl. selections mixing primary test sets.",
    "C10": " Replays cover every subset of the setup chain still present: a passed setup test whose state is in no pool must be executed again.",
    "C11": " The alphabet includes primary test sets joined to other names by each operator (single dot, double dot, comma).",
    "C12": " One call addressing 2-3 objects with independent presence and policy per object is enumerated as well (every row combination).",
    "C15": " Vms selected with several variants (or a non-default one) are included: path and removals are required per variant, with a variant-aware resolver.",
    "C16": " Lookups (get / in) are also interleaved with the insertions (all queries before every insertion; one lookup at one position).",
    "C17": " VM-size strings are rendered by a port of qemu's size_to_str over a systematic range of byte counts (every unit, both sides of every unit switch).",
    "C19": " The peering nic role is a dimension of its own (default role and a second role mapped to another interface).",
    "C20": " Steps include collect/create/clean; user-given <op>_mode / <op>_mode_<vm> parameters must be the ones the step's test applies to each vm.",
}


def main():
    props = [json.loads(l) for l in open(os.path.join(VERIF, "properties.jsonl"))]
    checks, na = [], []
    for p in props:
        pid = p["id"]
        if pid in CHECKS:
            engine, technique, text, note, ref = CHECKS[pid]
            text = text + ADDENDA.get(pid, "")
            checks.append({
                "property_id": pid,
                "quick_cmd": f"{PY} -m vt.run {pid} --tier quick",
                "thorough_cmd": f"{PY} -m vt.run {pid} --tier thorough",
                "evidence_file": f"/verif/evidence/{pid}.json",
                "replay_cmd_template": f"{PY} -m vt.run {pid} --replay {{path}}",
                "engine": engine,
                "level_claimed": {"category": "model_checking", "text": text, "design_ref": ref},
                "level_note": note,
                "technique": technique,
            })
        else:
            na.append({"property_id": pid, "reason": PLANNED.get(pid, "check not built yet in this tree (design in DESIGN.md §4); not claimed until it runs")})
    manifest = {
        "version": 1,
        "setup_cmd": "mkdir -p /verif/.work /verif/evidence /verif/replays && /venv/bin/python -c 'import avocado_i2n, virttest, aexpect'",
        "hooks": {
            "guard": "AVOCADO_I2N_VERIF",
            "enable": "no source hooks: all seams are module/class attributes patched by the harness at run time; checks export AVOCADO_I2N_VERIF=1 for uniformity",
            "baseline_off_cmd": "cd /repo && env -u AVOCADO_I2N_VERIF /venv/bin/python -m pytest -ra -q -p no:cacheprovider --timeout=900 --continue-on-collection-errors",
            "source_commits": [],
            "add_only": True,
        },
        "engines": [
            {"name": "travmc", "path": "vt/e1", "serves_properties": ["C01", "C02", "C03", "C04", "C05", "C08", "C09", "C10", "C15", "C20"],
             "kind_free_text": "stateless deviation-bounded exploration of the real asyncio traversal on a virtual-time event loop with a world model of the state pools"},
            {"name": "seqmc", "path": "vt/checks", "serves_properties": ["C11", "C12", "C13", "C14", "C16", "C17", "C18", "C19"],
             "kind_free_text": "bounded exhaustive operation-sequence / input search on the real functions compared with reference models at every step"},
            {"name": "procmc", "path": "vt/e3", "serves_properties": ["C14"],
             "kind_free_text": "preemption-bounded exploration of simulated processes around image_lock with a POSIX record-lock model validated against the kernel"},
            {"name": "parsemc", "path": "vt/e4", "serves_properties": ["C06", "C07", "C09", "C11"],
             "kind_free_text": "exhaustive enumeration of parser inputs with an independent dependency resolver and graph invariants"},
        ],
        "checks": checks,
        "not_applicable": na,
        "notes": "All checks: cwd=/verif, import avocado_i2n from /repo's working tree (VERIF_REPO overrides), exit 0/1/2(harness error). "
                 "Fixed genuine defects and known findings are listed in /verif/known_findings.jsonl.",
    }
    with open(os.path.join(VERIF, "MANIFEST.json"), "w") as f:
        json.dump(manifest, f, indent=1)
    print(f"MANIFEST.json: {len(checks)} checks, {len(na)} not claimed")


if __name__ == "__main__":
    main()
