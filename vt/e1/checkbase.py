"""Shared driver for the E1 property checks: explore a list of (scenario, bound) pairs with one monitor."""
from __future__ import annotations

import json
import os
import time

from vt import common
from vt.e1 import engine


def _shipped_plan(prop):
    """Core scenarios repeated on the shipped suite in the thorough tier."""
    from vt.e1 import scenarios as S

    DL = (1.0, 0.5, 3.0, 5.0)
    return {"C01": lambda: [(S.T2(), 1), (S.T3(), 0)], "C02": lambda: [(S.T2(O=S.PF), 1)], "C03": lambda: [(S.T2(), 1), (S.T2(params={"max_tries": 2}), 0)],
            "C04": lambda: [(S.T2(D=DL), 1)], "C05": lambda: [(S.G1(), 0)], "C08": lambda: [(S.T2(), 1)]}.get(prop)


def _explore_one(args):
    scn, monitor, k, deadline, seed = args
    t0 = time.time()
    res = engine.explore(scn, monitor, k, deadline, seed, procs=1)
    res.wall = time.time() - t0
    return res


def run_e1(prop, tier, seed, technique, plan, monitor, quick_budget, thorough_budget, rule, assumptions, matcher=None,
           suite="mini", post=None, parallel_scenarios=False, shipped=None):
    """plan: list of (Scenario, k) explored in order; a wall-clock cap may cut the tail (reported, never hidden)."""
    common.bootstrap(suite)
    engine.install_memo()
    if callable(plan):
        plan = plan()  # scenarios may execute the code under test (replay histories): only after the bootstrap
    rep = common.Report(prop, tier, seed, technique)
    rep.rule = rule
    rep.assumptions = list(assumptions)
    total_budget = common.budget(tier, quick_budget, thorough_budget)
    t_end = time.time() + total_budget
    outcomes_total = 0
    per_scn = []
    # determinism self-check on the first scenario (and on every violating execution below)
    engine.determinism_check(plan[0][0])
    remaining_weight = sum(w for _, _, w in _weighted(plan))
    precomputed = {}
    if parallel_scenarios:
        items = list(_weighted(plan))
        results = common.pmap(_explore_one, [(scn, monitor, k, t_end, seed) for scn, k, _ in items])
        precomputed = {id(scn): r for (scn, _, _), r in zip(items, results)}
    for scn, k, weight in _weighted(plan):
        now = time.time()
        if now >= t_end and not parallel_scenarios:
            rep.exhaustive = False
            per_scn.append({"scenario": scn.name, "k": k, "skipped": "wall-clock cap reached"})
            continue
        share = max(5.0, (t_end - now) * weight / max(remaining_weight, 1e-9))
        remaining_weight -= weight
        # quick: the stated bounds are meant to complete, only the overall cap applies; thorough: no scenario may eat the others' time
        deadline = t_end if tier == "quick" else min(t_end, now + share * 1.5)
        res = precomputed[id(scn)] if parallel_scenarios else engine.explore(scn, monitor, k, deadline, seed)
        if res.errors:
            raise common.HarnessError("; ".join(res.errors[:3]))
        rep.evaluations += res.executions
        rep.traces_validated += res.executions
        rep.transitions += res.transitions
        rep.states += len(res.histories)
        for sig in res.outcomes:
            rep.distinct.add((scn.name, sig))
        outcomes_total += len(res.outcomes)
        if not res.complete:
            rep.exhaustive = False
        per_scn.append({"scenario": scn.name, "k": k, "executions": res.executions, "complete": res.complete,
                        "completed_k": res.completed_k, "all_choice_sequences_enumerated": res.tree_exhausted, "level_sizes": res.level_sizes,
                        "distinct_outcomes": len(res.outcomes), "max_choice_points": res.max_points,
                        "executions_with_overlap": res.stats["executions_with_overlap"], "test_runs": res.stats["test_runs"],
                        "door_requests": res.stats["door_requests"], "violating_executions": len(res.violations),
                        "wall_s": round(time.time() - now, 1)})
        for s in res.samples:
            rep.sample(s, limit=3)
        seen_sig = set()
        for v in res.violations:
            sig = dict(v.get("signature") or {})
            sig.setdefault("scenario_family", scn.name.split("/")[0])
            key = json.dumps(sig, sort_keys=True)
            if key in seen_sig:
                continue
            seen_sig.add(key)
            # every violating execution is replayed from scratch before it is believed
            choices = v["replay"]["choices"]
            engine.determinism_check(scn, choices)
            rep.violation(f"[{scn.name}] {v['what']}", v["replay"], sig)
        if post is not None:
            post(rep, scn, res)
    # the same kind of scenario on other suites: the SHIPPED suite (thorough tier: nothing may depend on the trimmed guest configs of the
    # mini-suite) and the mini-suite customised through the user's overwrite config (graph shapes the sample suite lacks: an edge based on
    # two objects)
    alts = []
    shipped = shipped or _shipped_plan(prop)
    if tier == "thorough" and shipped is not None:
        alts.append(("shipped", {"suite": "shipped"}, "@shipped-suite", shipped))
    if prop in ("C01", "C02", "C03", "C04", "C05", "C08"):
        from vt.e4 import parsemc

        vname, vtext, _ = parsemc.SUITE_VARIANTS[0]
        setup = [(f"image1_{vm}", st) for vm, sts in (("vm1", ("install", "customize", "connect", "linux_virtuser")), ("vm2", ("install", "customize", "windows_virtuser")))
                 for st in sts] + [("vm1", "on_customize")]

        def variant_plan():
            xs = [(engine.Scenario("XC:net1+net2/lazy", "leaves..tutorial_get.explicit_clicked", "net1 net2", lazy=True, shared=setup), 1),
                  (engine.Scenario("XC:net1+net2/eager", "leaves..tutorial_get.explicit_clicked", "net1 net2", lazy=False, shared=setup), 0 if tier == "quick" else 1)]
            # the two-object producer's states left in the shared pool by an earlier run: the dependant has to be told where both are
            both = setup + [("image1_vm1", "guisetup1.clicked"), ("image1_vm2", "guisetup.clicked")]
            xs.append((engine.Scenario("XC:net1+net2/lazy", "leaves..tutorial_get.explicit_clicked", "net1 net2", lazy=True, shared=both).variant("/shared=setup+clicked"), 0))
            xs.append((engine.Scenario("XC:net1/eager", "leaves..tutorial_get.explicit_clicked", "net1", lazy=False, shared=both).variant("/shared=setup+clicked"), 0))
            return xs

        alts.append(("mini+" + vname, {"suite": "mini", "tests_overwrite": vtext}, "@" + vname, variant_plan))
    for label, boot, suffix, mk in alts:
        if time.time() >= t_end:
            break
        common.bootstrap(**boot)
        for scn, k in mk():
            scn.suite = label
            scn.name += suffix
            now = time.time()
            res = engine.explore(scn, monitor, k, max(t_end, now + 300), seed)
            if res.errors:
                raise common.HarnessError("; ".join(res.errors[:3]))
            rep.evaluations += res.executions
            rep.traces_validated += res.executions
            rep.transitions += res.transitions
            rep.states += len(res.histories)
            for sig in res.outcomes:
                rep.distinct.add((scn.name, sig))
            per_scn.append({"scenario": scn.name, "k": k, "executions": res.executions, "complete": res.complete, "completed_k": res.completed_k,
                            "distinct_outcomes": len(res.outcomes),
                            "violating_executions": len(res.violations), "wall_s": round(time.time() - now, 1)})
            seen_sig = set()
            for v in res.violations:
                sig = dict(v.get("signature") or {})
                key = json.dumps(sig, sort_keys=True)
                if key in seen_sig:
                    continue
                seen_sig.add(key)
                rep.violation(f"[{scn.name}] {v['what']}", v["replay"], sig)
        common.bootstrap(suite)
    # binding of the world model to the real state code: replay the default schedule of every scenario with each state-control request
    # also answered by the real states.setup over the real pool scope logic (in-memory leaf stores)
    engine.BINDING.update({"on": True, "validated": 0, "mismatches": []})
    try:
        done_keys = set()
        t_bind = time.time()
        for scn, k, _ in _weighted(plan):
            key = json.dumps([scn.parse_key(), [list(i) for i in scn.shared], {k: [list(i) for i in v] for k, v in scn.own.items()}], sort_keys=True)
            if key in done_keys or time.time() - t_bind > (25 if tier == "quick" else 120):
                continue
            done_keys.add(key)
            engine.execute(scn, [])
    finally:
        engine.BINDING["on"] = False
    rep.extra["world_model_requests_validated_against_real_state_code"] = engine.BINDING["validated"]
    if engine.BINDING["mismatches"]:
        raise common.HarnessError("world model disagrees with the real state code: " + json.dumps(engine.BINDING["mismatches"][0])[:600])
    rep.sections["scenarios"] = per_scn
    rep.bounds = {"deviation_bound_per_scenario": {p["scenario"]: p["k"] for p in per_scn},
                  "deviation_bound_completed_per_scenario": {p["scenario"]: ("all" if p.get("all_choice_sequences_enumerated") else p.get("completed_k"))
                                                             for p in per_scn if "completed_k" in p},
                  "durations_in_backoff_periods": sorted({d for s, _, _ in _weighted(plan) for d in s.D}),
                  "outcomes": sorted({o for s, _, _ in _weighted(plan) for o in s.O}), "wall_clock_cap_s": total_budget}
    checked = engine.memo_selfcheck()
    rep.extra["memo_selfcheck_entries"] = checked
    rep.extra["memo_hits"] = engine._memo_stats["hits"]
    if not any(p.get("executions_with_overlap") for p in per_scn):
        rep.note("VACUITY WARNING: no execution had two tests running at the same virtual time")
    return rep.finish(matcher)


def _weighted(plan):
    for item in plan:
        if len(item) == 3:
            yield item
        else:
            yield item[0], item[1], 1.0


def replay_e1(path, monitor):
    """Re-execute a recorded violating schedule without the explorer and print the trace."""
    with open(path) as f:
        data = json.load(f)
    r = data["replay"]
    d = r["scenario"]
    label = d.get("suite", "mini")
    if label.startswith("mini+"):
        from vt.e4 import parsemc

        text = next(t for n, t, _ in parsemc.SUITE_VARIANTS if n == label[5:])
        common.bootstrap("mini", tests_overwrite=text)
    else:
        common.bootstrap(label)
    engine.install_memo()
    scn = engine.Scenario(d["name"], d["restriction"], d["nets"], lazy=d["lazy"], vm_strs=d["vm_strs"], params=d["params"],
                          D=d["D"], O=d["O"], shared=[tuple(i) for i in d["shared"]],
                          own={k: [tuple(i) for i in v] for k, v in d["own"].items()}, suite=d["suite"], previous=d["previous"],
                          persistent=tuple(d["persistent"]) if d["persistent"] else None, run_params=d.get("run_params"))
    if d.get("watch"):
        scn.watch = tuple(d["watch"])
    x = engine.execute(scn, r["choices"])
    for line in engine.compact_trace(x.trace):
        print(line)
    print("exception:", x.exc)
    vs = monitor(scn, x)
    for v in vs:
        print("VIOLATION-REPLAYED:", v["what"])
    return 1 if vs else 0
