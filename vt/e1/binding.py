"""Binding of the world model to the code: the state-control requests seen by the `door` stub are replayed through the REAL
`states.setup` (check/unset/get) over the REAL `pool.SourcedStateBackend` scope logic with in-memory leaf stores filled from the
world model; the real answer / effect must equal the model's."""
from __future__ import annotations

import copy


def make_backends(world, wid, variants):
    from avocado_i2n.states import pool

    def key_of(params):
        level = params["object_type"].split("/")[-1]
        if level == "vms":
            return params["vms"]
        return params["images"] + "_" + params["vms"]

    def own_states(params):
        suffix = key_of(params)
        return sorted({s for (o, v, s) in world.pools[wid] if o == suffix and v in ("*", variants.get(suffix, "*"))})

    def shared_states(params):
        suffix = key_of(params)
        return sorted({s for (o, v, s) in world.pools["shared"] if o == suffix and v in ("*", variants.get(suffix, "*"))})

    class Transport:
        log = []

        @classmethod
        def show(cls, params, object=None):
            cls.log.append(("show", params["show_location"]))
            return shared_states(params)

        @classmethod
        def get(cls, params, object=None):
            cls.log.append(("get", params["get_location"]))
            world.pools[wid].add((key_of(params), variants.get(key_of(params), "*"), params["get_state"]))

        @classmethod
        def unset(cls, params, object=None):
            cls.log.append(("unset", params["unset_location"]))

        @classmethod
        def compare_chain(cls, *a, **k):
            return True

    class Mem(pool.SourcedStateBackend):
        transport = Transport

        @classmethod
        def _show(cls, params, object=None):
            return own_states(params)

        @classmethod
        def _get(cls, params, object=None):
            pass

        @classmethod
        def _unset(cls, params, object=None):
            suffix = key_of(params)
            for item in list(world.pools[wid]):
                if item[0] == suffix and item[2] == params["unset_state"]:
                    world.pools[wid].discard(item)

        @classmethod
        def check_root(cls, params, object=None):
            return True

        @classmethod
        def get_root(cls, params, object=None):
            pass

    return Mem, Transport


def replay_request(do, params, world, wid, variants):
    """Run the real state operation for one door request on a COPY of the world; returns (answer, resulting own pool)."""
    from avocado_i2n.states import setup as ss
    from virttest.utils_params import Params

    w2 = copy.deepcopy(world)
    Mem, Transport = make_backends(w2, wid, variants)
    old = ss.BACKENDS
    ss.BACKENDS = {k: Mem for k in ("qcow2", "qcow2ext", "qcow2vt", "ramfile", "lvm", "lxc", "btrfs", "vmnet", "rootfs")}
    from avocado.core import exceptions

    try:
        p = Params(dict(params))
        if do == "check":
            ans = bool(ss.check_states(p, env=None))
        elif do == "unset":
            ss.unset_states(p, env=None)
            ans = None
        elif do == "get":
            ss.get_states(p, env=None)
            ans = None
        else:
            return None, None
    except (exceptions.TestAbortError, exceptions.TestError):
        # the control file fails; the traversal only logs this: no effect on the pools
        ans = "aborted"
    finally:
        ss.BACKENDS = old
    return ans, sorted(w2.pools[wid])
