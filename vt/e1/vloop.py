"""Virtual-time asyncio event loop whose scheduling decisions are owned by a chooser.

The loop is a `BaseEventLoop` without selector: `_ready` and `_scheduled` are popped by `run_all`.
Choice kinds: DUR (duration of a test), OUT (its outcome), TIE (which of several events due at the same
virtual instant fires first; only test-end events may be reordered, fixed timers keep creation order).
"""
from __future__ import annotations

import asyncio
import heapq
from asyncio import events


class ReplayDivergence(Exception):
    """The recorded prefix does not fit the execution (harness error, never a violation)."""


class Horizon(Exception):
    """The execution exceeded its step or time horizon (non-termination)."""


class Deadlock(Exception):
    """Tasks are pending but nothing is runnable and no timer is armed."""


class Chooser:
    def __init__(self, prefix=()):
        self.prefix = list(prefix)
        self.choices = []
        self.points = []  # (kind, n_alternatives, label)

    def choose(self, kind: str, n: int, label: str = "") -> int:
        i = len(self.choices)
        c = self.prefix[i] if i < len(self.prefix) else 0
        if c >= n:
            raise ReplayDivergence(f"choice {i} ({kind} {label}) has {n} alternatives, prefix wants {c}")
        self.choices.append(c)
        self.points.append((kind, n, label))
        return c


class VLoop(asyncio.BaseEventLoop):
    def __init__(self, chooser: Chooser, max_steps: int = 200000, max_time: float = 1e7):
        super().__init__()
        self._vt = 0.0
        self.ch = chooser
        self.seq = 0
        self.meta = {}  # id(handle) -> (creation seq, is_test_end, owner label)
        self._next_free = None
        self.max_steps = max_steps
        self.max_time = max_time
        self.steps = 0
        self.on_timer = None  # callback(kind, when, delay)

    # ---- BaseEventLoop plumbing ------------------------------------------------------------
    def time(self):
        return self._vt

    def _process_events(self, ev):
        pass

    def _write_to_self(self):
        pass

    def call_at(self, when, callback, *args, context=None):
        h = super().call_at(when, callback, *args, context=context)
        self.seq += 1
        free = self._next_free
        self._next_free = None
        self.meta[id(h)] = (self.seq, free is not None, free)
        if self.on_timer is not None:
            self.on_timer(free, when, when - self._vt)
        return h

    def mark_next_timer_free(self, label):
        self._next_free = label

    # ---- the explorer's step function -------------------------------------------------------
    def _drain_one(self) -> bool:
        """Run one ready handle or fire one timer; returns False when nothing can happen."""
        if self._ready:
            h = self._ready.popleft()
            if not h._cancelled:
                h._run()
            return True
        live = [h for h in self._scheduled if not h._cancelled]
        if not live:
            return False
        t = min(h._when for h in live)
        due = sorted((h for h in live if h._when - t < 1e-9), key=lambda h: self.meta[id(h)][0])
        fixed = [h for h in due if not self.meta[id(h)][1]]
        free = [h for h in due if self.meta[id(h)][1]]
        cands = ([fixed[0]] if fixed else []) + free
        cands.sort(key=lambda h: self.meta[id(h)][0])
        if len(cands) > 1 and free:
            c = self.ch.choose("TIE", len(cands), "t=%.3f" % t)
        else:
            c = 0
        h = cands[c]
        self._scheduled.remove(h)
        heapq.heapify(self._scheduled)
        h._scheduled = False
        self.meta.pop(id(h), None)
        self._vt = max(self._vt, t)
        if self._vt > self.max_time:
            raise Horizon(f"virtual time {self._vt:.1f} beyond horizon")
        self._ready.append(h)
        return True

    def run_all(self, main):
        """Run coroutine `main` to completion in virtual time."""
        events._set_running_loop(self)
        try:
            task = self.create_task(main)
            while not task.done():
                self.steps += 1
                if self.steps > self.max_steps:
                    raise Horizon(f"more than {self.max_steps} loop steps")
                if not self._drain_one():
                    raise Deadlock("tasks pending but no runnable handle and no timer")
            return task.result()
        finally:
            events._set_running_loop(None)

    # so that code calling loop.run_until_complete(...) (run_workers, intertest tools) lands here
    def run_until_complete(self, future):
        if asyncio.iscoroutine(future):
            return self.run_all(future)

        async def _wrap():
            return await future

        return self.run_all(_wrap())

    def shutdown(self):
        # cancel whatever is left so that no "task was destroyed but pending" noise leaks into later runs
        for h in list(self._scheduled):
            h.cancel()
        self._scheduled.clear()
        self._ready.clear()
        try:
            self.close()
        except Exception:  # noqa: BLE001
            pass
