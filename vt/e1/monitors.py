"""Oracles evaluated on one complete execution (trace + final facts) of the real traversal.

Each monitor returns a list of {"what": str, "signature": {...}} dictionaries (empty = property held on this execution).
All of them are written from the property statements, not from the code; where a statement can be read in a stronger
and a weaker way the weaker (less demanding) reading decides and the stronger one is only counted as a note.
"""
from __future__ import annotations

import collections
import re

ROOT_STATES = ("root", "0root", "boot", "0boot")
ACCEPTABLE = ("PASS", "WARN", "SKIP", "CANCEL")


def short(ident):
    return ident.split(".vms.")[0]


def starts(x):
    return [e for e in x.trace if e["k"] == "start"]


def ends(x):
    return [e for e in x.trace if e["k"] == "end"]


def scope_key(e):
    """Reuse scope of an execution as the statement defines it: run / swarm / worker."""
    # "the whole run by default; one swarm, or one worker, when the pool scope is narrowed": decided by the configured pool scope alone
    scopes = (e.get("pool_scope") or "").split()
    if "swarm" not in scopes:
        return ("worker", e["w"])
    if "cluster" not in scopes:
        return ("swarm", e.get("swarm"))
    return ("run",)


def budget_of(e, scn):
    mt = e.get("max_tries")
    try:
        mt = int(float(mt)) if mt not in (None, "") else None
    except ValueError:
        mt = None
    if mt is None:
        mt = 2 if scn.params.get("replay") else 1
    return max(mt, 1)


def _mct_above(scn, budget):
    """Is an explicit max_concurrent_tries configured that exceeds the retry budget?"""
    try:
        return int(float(scn.params.get("max_concurrent_tries"))) > budget
    except (TypeError, ValueError):
        return False


def creation_key(e):
    """Executions belonging to the two-step creation of an object share this key (None otherwise)."""
    return e.get("object_root") or None


# ------------------------------------------------------------------------------------------------
# C03
# ------------------------------------------------------------------------------------------------
def c03(scn, x):
    out = []
    per = collections.defaultdict(list)
    nworkers = len(scn.nets.split())
    for e in starts(x):
        if e["flat"]:
            out.append({"what": f"flat test {e['short']} was executed", "signature": {"clause": "flat-executed"}})
        if e["clone_source"]:
            out.append({"what": f"clone source {e['short']} was executed", "signature": {"clause": "clone-source-executed"}})
        pre = e["type"] == "shared_configure_install" and bool(e.get("object_root"))
        # the configuration pre-step of an object creation is one attempt of that creation
        ident = ("creation-attempt " + e["object_root"].split("-")[0]) if pre else e["ident"]
        per[(ident, scope_key(e))].append(e)
    escapes = _escape_executions(scn, x)
    for (ident, sk), evs in per.items():
        budget = budget_of(evs[0], scn)
        counted = [e for e in evs if e["seq"] not in escapes]
        if len(counted) > budget:
            creation = bool(evs[0].get("object_root"))
            out.append({"what": f"{short(ident)} executed {len(counted)} times in scope {sk} with budget {budget} "
                                f"(workers {[e['w'] for e in counted][:12]} at t={[e['t'] for e in counted][:12]})",
                        "signature": {"clause": "budget", "retries": budget > 1,
                                      "explicit_concurrency_above_budget": _mct_above(scn, budget),
                                      "kind": "creation-attempt" if ident.startswith("creation-attempt") else ("install" if creation else "test"),
                                      "excess_within_workers": ident.startswith("creation-attempt") or len(counted) - budget <= nworkers - 1}})
    # a setup test whose states were all found when first examined is not executed in that scope
    first_check = {}
    removed_since = collections.defaultdict(bool)
    for e in x.trace:
        if e["k"] == "door" and e["do"] == "check":
            key = (e["ident"], _scope_for_worker(e["w"], x, scn))
            if key not in first_check:
                first_check[key] = e
        elif e["k"] == "door" and e["do"] == "unset":
            for key in list(first_check):
                if first_check[key]["answer"] and any(i in first_check[key]["items"] for i in e["items"]):
                    removed_since[key] = True
        elif e["k"] == "start":
            key = (e["ident"], scope_key(e))
            fc = first_check.get(key)
            if fc is not None and fc["answer"] is True and not removed_since[key] and e["sets"]:
                out.append({"what": f"{short(e['ident'])} executed by {e['w']} although all its states were found at its first "
                                    f"examination in scope {key[1]} (t={fc['t']} by {fc['w']})",
                            "signature": {"clause": "found-but-executed", "test": short(e["ident"])}})
    return out


def _escape_executions(scn, x):
    """Executions that only exist because another worker's execution of the same test (or object creation) overran the timeout budget:
    the code documents re-entrancy after `occupied_wait > test_timeout*max_tries` as its recovery from a hanging test; the statements
    speak about tests that stay within their timeout.  Returns the seq numbers of such executions (by OTHER workers, started while the
    overrunning execution was still in progress)."""
    timeout_periods = float(scn.params.get("test_timeout", 3600)) * float(scn.params.get("max_tries", 1) or 1) / 0.1
    poll_periods = 10 * 30 / 0.1
    st = {e["seq"]: e for e in x.trace if e["k"] == "start"}
    intervals = []  # (key, scope, worker, start, extended end)
    copen = {}
    for e in x.trace:
        if e["k"] == "start" and e.get("object_root") and e["type"] == "shared_configure_install":
            copen[(e["w"], e["object_root"])] = e["t"]
        elif e["k"] == "end":
            s0 = st[e["seq"]]
            ext = e["t"] + (poll_periods if e["status"] == "NORESULT" else 0)
            if s0.get("object_root"):
                begin = copen.get((s0["w"], s0["object_root"]), s0["t"])
                key = ("create", s0["object_root"])
            else:
                begin = s0["t"]
                key = ("test", s0["ident"])
            if ext - begin > timeout_periods + 1e-9:
                intervals.append((key, scope_key(s0), s0["w"], begin, ext))
    out = set()
    attempt_is_escape = {}  # (worker, object root) -> whether the current creation attempt began as an escape
    for e in x.trace:
        if e["k"] != "start":
            continue
        key = ("create", e["object_root"]) if e.get("object_root") else ("test", e["ident"])
        pre = bool(e.get("object_root")) and e["type"] == "shared_configure_install"
        hit = False
        for (k2, sc, w, begin, ext) in intervals:
            if k2 == key and sc == scope_key(e) and w != e["w"] and begin + timeout_periods < e["t"] <= ext + 1e-9:
                hit = True
        if e.get("object_root"):
            if pre:
                attempt_is_escape[(e["w"], e["object_root"])] = hit
            elif attempt_is_escape.get((e["w"], e["object_root"])):
                hit = True  # the install step of a creation attempt that began as an escape belongs to that attempt
        if hit:
            out.add(e["seq"])
    return out


def _scope_for_worker(wid, x, scn):
    # derive the scope of a door request from any execution record of the same worker (same spawner / pool_scope in a scenario)
    for e in x.trace:
        if e["k"] == "start" and e["w"] == wid:
            return scope_key(e)
    # no execution by this worker: use scenario parameters
    scopes = str(scn.params.get("pool_scope", "own swarm cluster shared")).split()
    if "swarm" not in scopes:
        return ("worker", wid)
    if "cluster" not in scopes:
        return ("swarm", wid.split(".")[0] if "." in wid else "localhost")
    return ("run",)


# ------------------------------------------------------------------------------------------------
# C04
# ------------------------------------------------------------------------------------------------
def c04(scn, x, overrun=False):
    out = []
    # the statement only speaks about runs in which no test overruns its timeout
    timeout_periods = float(scn.params.get("test_timeout", 3600)) / 0.1
    if any(e["k"] == "end" and e["dur"] > timeout_periods for e in x.trace):
        overrun = True
    # ... the two-step creation of an object counting as one execution
    copen, seqinfo = {}, {}
    for e in x.trace:
        if e["k"] == "start" and e.get("object_root"):
            pre = e["type"] == "shared_configure_install"
            seqinfo[e["seq"]] = (e["w"], e["object_root"], pre)
            if pre or (e["w"], e["object_root"]) not in copen:
                copen[(e["w"], e["object_root"])] = e["t"]
        elif e["k"] == "end" and e["seq"] in seqinfo:
            w, root, pre = seqinfo[e["seq"]]
            if (w, root) in copen and e["t"] - copen[(w, root)] > timeout_periods + 1e-9:
                overrun = True
            if not pre or e["status"] in ("FAIL", "ERROR"):
                copen.pop((w, root), None)
    # intervals per (identity, scope); creation = pre-step + install as one interval per worker
    open_by = collections.defaultdict(dict)  # key -> {worker: count}
    limit = {}
    for e in x.trace:
        if e["k"] not in ("start", "end"):
            continue
        if e["k"] == "start":
            ck = creation_key(e)
            key = (("create", ck) if ck else ("test", e["ident"]), scope_key(e))
            e["_key"] = key
            # the configured limit (the code may raise the node's own parameter as its documented escape from a test overrunning its timeout)
            mct = scn.params.get("max_concurrent_tries")
            mt = scn.params.get("max_tries")
            lim = int(float(mct)) if mct not in (None, "") else (int(float(mt)) if mt not in (None, "") else (2 if scn.params.get("replay") else 1))
            limit[key] = max(lim, 1)
            open_by[key][e["w"]] = open_by[key].get(e["w"], 0) + 1
            active = [w for w, c in open_by[key].items() if c > 0]
            if len(active) > limit[key] and not overrun:
                out.append({"what": f"{key[0]} executed concurrently by {sorted(active)} in scope {key[1]} at t={e['t']} (limit {limit[key]})",
                            "signature": {"clause": "overlap", "test": short(key[0][1]), "limit": limit[key]}})
        else:
            st = next((s for s in x.trace if s["k"] == "start" and s["seq"] == e["seq"]), None)
            key = st["_key"]
            open_by[key][e["w"]] -= 1
    for e in x.trace:
        e.pop("_key", None)
    # back-off: bounded period, nothing held while sleeping
    tt = float(scn.params.get("test_timeout", 3600))
    mt = float(scn.params.get("max_tries", 1) or 1)
    bound = round(max(tt * mt / 1000, 0.1), 2)
    for e in x.trace:
        if e["k"] == "sleep" and e["caller"] == "traverse_object_trees":
            if e["delay"] > bound + 1e-9:
                out.append({"what": f"worker {e['w']} backs off for {e['delay']}s > bound {bound}s", "signature": {"clause": "backoff-bound"}})
            if e["holding"]:
                out.append({"what": f"worker {e['w']} sleeps in back-off while holding {e['holding']}", "signature": {"clause": "backoff-holding"}})
    return out


# ------------------------------------------------------------------------------------------------
# C01
# ------------------------------------------------------------------------------------------------
def c01(scn, x):
    out = []
    failed_sets = set()  # (suffix, variant, state) whose producer was attempted and did not pass
    failed_creation = set()  # vm suffixes whose creation step was attempted and did not pass
    attempted = {}
    seq2start = {}
    for e in x.trace:
        if e["k"] == "start":
            seq2start[e["seq"]] = e
            for m in e["missing"]:
                suffix, variant, state = m
                vm = suffix.split("_")[-1]
                excused = (suffix, variant, state) in failed_sets or vm in failed_creation
                if not excused:
                    residue = _residue_signature(scn, x, e, m)
                    # was the state there earlier in this run and removed by the traversal's own cleanup (not recreated since)?
                    cleaned = next((u for u in reversed(x.trace[:x.trace.index(e)]) if u["k"] == "door" and u["do"] == "unset"
                                    and any(it[0] == suffix and it[2] == state for it in u["items"]) and _same_scope(scn, e["w"], u["w"])), None)
                    if cleaned is not None and residue is None:
                        scopes = str(scn.params.get("pool_scope", "own swarm cluster shared")).split()
                        residue = {"clause": "missing-after-cleanup", "lazy": bool(scn.lazy), "cross_worker": cleaned["w"] != e["w"],
                                   "scope": "run" if ("swarm" in scopes and "cluster" in scopes) else ("swarm" if "swarm" in scopes else "worker")}
                    out.append({"what": f"{e['w']} starts {e['short']} at t={e['t']} without required state {state} of {suffix} "
                                        f"(get_location={e['locs'].get(suffix)!r}); no failed attempt of its producer or creation step before"
                                        + (f"; the state was removed by {cleaned['w']} at t={cleaned['t']}" if cleaned is not None else ""),
                                "signature": residue or {"clause": "missing-state", "test": short(e["ident"]), "state": state}})
        elif e["k"] == "end" and e["status"] != "PASS":
            st = seq2start[e["seq"]]
            for (suffix, variant, state, key, perm) in st["sets"]:
                failed_sets.add((suffix, variant, state))
            if st.get("object_root"):
                root_suffix = st["object_root"].split("-")[0]
                failed_creation.add(root_suffix.split("_")[-1])
    return out


def _residue_signature(scn, x, e, m):
    """Recognise the known-finding history: the state exists only in another worker's own pool as residue of an earlier run."""
    suffix, variant, state = m
    holders = [w for w, items in scn.own.items() if (suffix, state) in items and w != e["w"]]
    in_shared = (suffix, state) in scn.shared
    in_own = (suffix, state) in scn.own.get(e["w"], ())
    produced = any(s["k"] == "start" and any(t[0] == suffix and t[2] == state for t in s["sets"]) for s in x.trace if s["t"] <= e["t"])
    if holders and not in_shared and not in_own and not produced:
        return {"clause": "residue-in-other-own-pool"}
    return None


# ------------------------------------------------------------------------------------------------
# C02
# ------------------------------------------------------------------------------------------------
def c02(scn, x):
    out = []
    if x.exc is not None:
        kind = x.exc_type
        out.append({"what": f"traversal ended with {x.exc}", "signature": {"clause": "exception", "type": kind,
                                                                       "msg": re.sub(r"\[node\].*|<.*", "", x.exc)[:60]}})
        return out
    dry = str(scn.params.get("dry_run", "no")) == "yes" or str((scn.run_params or {}).get("dry_run", "no")) == "yes"
    if dry:
        if starts(x):
            out.append({"what": f"dry run executed {len(starts(x))} tests", "signature": {"clause": "dry-run-executed"}})
        changing = [e for e in x.trace if e["k"] == "door" and e["do"] in ("get", "set", "unset")]
        if changing:
            out.append({"what": f"dry run changed states: {changing[0]['do']} {changing[0]['items']}", "signature": {"clause": "dry-run-changed"}})
        return out
    executed = collections.Counter()
    for e in starts(x):
        executed[_setless_of(e["ident"], x)] += 1
    by_setless = collections.defaultdict(list)
    for n in x.final["nodes"]:
        if n["shared_root"]:
            continue
        by_setless[n["setless"] if n["flat"] else _strip_objects(n["setless"])].append(n)
    selected = _selected_tests(scn)
    for sel in selected:
        nodes = by_setless.get(sel, [])
        composites = [n for n in nodes if not n["flat"] and not n["clone_source"]]
        if not composites:
            # not compatible with any worker (or only clone sources): nothing is promised
            clones = [n for k, ns in by_setless.items() for n in ns if not n["flat"] and _clone_base(k) == sel and not n["clone_source"]]
            composites = clones
            if not composites:
                continue
        ran = any(n["results"] for n in composites)
        if not ran:
            out.append({"what": f"selected test {sel} compatible with a worker was never executed", "signature": {"clause": "never-executed", "test": sel}})
    for n in x.final["nodes"]:
        if "UNKNOWN" in n["results"]:
            out.append({"what": f"test {short(n['ident'])} is left with a pending UNKNOWN result {n['results']}",
                        "signature": {"clause": "unknown-left", "noresult": any(e["status"] == "NORESULT" for e in ends(x))}})
        if n["started"] is not None:
            out.append({"what": f"test {short(n['ident'])} is still marked as started by {n['started']} after the run", "signature": {"clause": "started-left"}})
    return out


_selected_cache = {}


def _selected_tests(scn):
    """Setless names of the tests the restriction selects (flat Cartesian parse, none of the graph code)."""
    key = scn.restriction
    if key not in _selected_cache:
        from avocado_i2n.cartgraph import TestGraph

        restr = "".join(f"only {part}\n" for part in scn.restriction.split("\n") if part) if "only " not in scn.restriction else scn.restriction
        flat = TestGraph.parse_flat_nodes(restr)
        _selected_cache[key] = sorted({n.setless_form for n in flat})
    return _selected_cache[key]


def _strip_objects(setless):
    return setless.split(".vms.")[0]


def _clone_base(setless):
    return None


def _setless_of(ident, x):
    for n in x.final["nodes"]:
        if n["ident"] == ident:
            return _strip_objects(n["setless"])
    return ident


# ------------------------------------------------------------------------------------------------
# C05
# ------------------------------------------------------------------------------------------------
def _reach(scn, user, holder):
    """May `user` fetch a state from `holder`'s own pool (the rule of SourcedStateBackend.get_source_scope)?"""
    scopes = str(scn.params.get("pool_scope", "own swarm cluster shared")).split()
    if user == holder:
        return True
    su = user.split(".")[0] if "." in user else "localhost"
    sh = holder.split(".")[0] if "." in holder else "localhost"
    return ("swarm" in scopes) if su == sh else ("cluster" in scopes)


def _swarm(wid):
    return wid.split(".")[0] if "." in wid else "localhost"


def _same_scope(scn, a, b):
    """Do workers a and b belong to one reuse scope (the whole run; one swarm or one worker when the pool scope is narrowed)?"""
    scopes = str(scn.params.get("pool_scope", "own swarm cluster shared")).split()
    if a == b or ("swarm" in scopes and "cluster" in scopes):
        return True
    sa = a.split(".")[0] if "." in a else "localhost"
    sb = b.split(".")[0] if "." in b else "localhost"
    return "swarm" in scopes and sa == sb


def _holders(scn, tr, upto, suffix, state):
    """Pools holding the state after the first `upto` events of the trace: 'shared' and/or worker ids (their own pools)."""
    h = set()
    if (suffix, state) in scn.shared:
        h.add("shared")
    for w, items in scn.own.items():
        if (suffix, state) in items:
            h.add(w)
    starts_ = {}
    for v in tr[:upto]:
        if v["k"] == "start":
            starts_[v["seq"]] = v
        elif v["k"] == "end" and v["status"] == "PASS":
            st = starts_.get(v["seq"])
            if st and any(g[0] == suffix and g[2] == state for g in st["sets"]):
                h.add(v["w"])
        elif v["k"] == "door" and v["do"] == "unset" and any(it[0] == suffix and it[2] == state for it in v["items"]):
            h.discard(v["w"])
    return h


def _available(scn, user, holders):
    scopes = str(scn.params.get("pool_scope", "own swarm cluster shared")).split()
    return any((h == "shared" and "shared" in scopes) or (h != "shared" and _reach(scn, user, h)) for h in holders)


def c05(scn, x):
    out = []
    pool_filter = str(scn.params.get("pool_filter", "reuse"))
    tr = x.trace
    for idx, e in enumerate(tr):
        if e["k"] != "door":
            continue
        if e["do"] == "get":
            if pool_filter != "copy":
                out.append({"what": f"state copy (get {e['items']}) issued while backing out with pool_filter={pool_filter}",
                            "signature": {"clause": "get-with-reuse"}})
            continue
        if e["do"] != "unset":
            continue
        modes = e.get("modes", {})
        for it in e["items"]:
            suffix, variant, state = it
            mode = modes.get(suffix)
            if mode is not None and not mode.startswith("f"):
                out.append({"what": f"state {state} of {suffix} removed although its unset_mode is {mode}", "signature": {"clause": "removed-not-marked", "state": state}})
            # (ii) dependants: running at the time of removal, or starting later without re-creation
            running = {}
            for u in tr[:idx]:
                if u["k"] == "start":
                    running[u["seq"]] = u
                elif u["k"] == "end":
                    running.pop(u["seq"], None)
            for u in running.values():
                # a removal concerns the dependants within the remover's reuse scope (workers of other scopes keep their own setup)
                if any(g[0] == suffix and g[2] == state for g in u["gets"]) and _same_scope(scn, u["w"], e["w"]):
                    out.append({"what": f"state {state} of {suffix} removed by {e['w']} at t={e['t']} while dependant {u['short']} is running on {u['w']}",
                                "signature": {"clause": "removed-while-running", "state": state, "cross_swarm": _swarm(u["w"]) != _swarm(e["w"])}})
            scopes = str(scn.params.get("pool_scope", "own swarm cluster shared")).split()

            def reach(user, holder):
                """May `user` fetch a state from `holder`'s own pool (the rule of SourcedStateBackend.get_source_scope)?"""
                if user == holder:
                    return True
                su = user.split(".")[0] if "." in user else "localhost"
                sh = holder.split(".")[0] if "." in holder else "localhost"
                return ("swarm" in scopes) if su == sh else ("cluster" in scopes)

            recreated_by = []
            for u in tr[idx + 1:]:
                if u["k"] == "end" and u["status"] == "PASS":
                    st = next(s for s in tr if s["k"] == "start" and s["seq"] == u["seq"])
                    if any(g[0] == suffix and g[2] == state for g in st["sets"]):
                        recreated_by.append(u["w"])
                elif u["k"] == "start" and _same_scope(scn, u["w"], e["w"]) and not any(reach(u["w"], c) for c in recreated_by):
                    if any(g[0] == suffix and g[2] == state for g in u["gets"]):
                        # had the dependant's worker already taken part in the producer (examined or executed it) when the state was removed?
                        involved = any(v["k"] in ("start", "door") and v["w"] == u["w"] and v.get("ident") == e.get("ident") for v in tr[:idx])
                        out.append({"what": f"state {state} of {suffix} removed by {e['w']} at t={e['t']} but dependant {u['short']} "
                                            f"starts on {u['w']} at t={u['t']} (pending at removal time)",
                                    "signature": {"clause": "removed-before-dependant", "cross_worker": u["w"] != e["w"],
                                                  "dependant_worker_involved_before_removal": involved, "lazy": bool(scn.lazy),
                                                  "cross_swarm": _swarm(u["w"]) != _swarm(e["w"]),
                                                  "scope": "run" if ("swarm" in scopes and "cluster" in scopes) else ("swarm" if "swarm" in scopes else "worker")}})
    return out


# ------------------------------------------------------------------------------------------------
# C08
# ------------------------------------------------------------------------------------------------
def c08(scn, x, worker_facts):
    """worker_facts: wid -> {"params": nets_* params, "restrs": {vm: restriction lines}, "name": full net name}"""
    out = []
    passed_by = collections.defaultdict(set)  # (suffix, variant, state) -> workers with a completed PASS execution of a producer
    seq2start = {}
    prev_pass = collections.defaultdict(set)
    for r in scn.previous:
        if r.get("status") == "PASS":
            for wid in worker_facts:
                if r["name"].endswith("." + wid) or ("." + wid + ".") in r["name"]:
                    prev_pass[_strip_nets(r["name"])].add(wid)
    # producers known from the replayed previous job(s): a PASS result of a test that sets the state, on the worker named in the result
    prev_producers = collections.defaultdict(set)
    if scn.previous:
        sets_of = {}
        for n in x.final["nodes"]:
            if n["sets"]:
                sets_of.setdefault(n["ident"], n["sets"])
        for r in scn.previous:
            if r.get("status") != "PASS":
                continue
            sets = sets_of.get(_strip_nets(r["name"]))
            if not sets:
                continue
            for wid in worker_facts:
                if r["name"].endswith("." + wid) or ("." + wid + ".") in r["name"]:
                    for t in sets:
                        prev_producers[(t[0], t[1], t[2])].add(wid)
    for e in x.trace:
        if e["k"] == "door" and e.get("asked_by") and e["w"] != e["asked_by"]:
            out.append({"what": f"state control ({e['do']}) for a test of worker {e['asked_by']} was carried out in the environment of {e['w']} (session {e.get('session')})",
                        "signature": {"clause": "foreign-session", "at": "state-control"}})
        if e["k"] == "start":
            seq2start[e["seq"]] = e
            wf = worker_facts.get(e["w"])
            if wf is None:
                out.append({"what": f"{e['short']} started by unknown worker {e['w']}", "signature": {"clause": "unknown-worker"}})
                continue
            if e["nets"] != e["w"] or not e["name"].endswith(wf["name_suffix"]):
                out.append({"what": f"{e['name']} (nets={e['nets']}) executed by worker {e['w']} it was not parsed for",
                            "signature": {"clause": "foreign-worker"}})
            if e.get("spawner") == "remote" and e.get("handle") != e.get("shell_addr"):
                out.append({"what": f"{e['short']} parsed for {e['w']} ({e.get('shell_addr')}) is spawned through the session to {e.get('handle')}",
                            "signature": {"clause": "foreign-session", "at": "spawn"}})
            for k, v in wf["params"].items():
                if e["nets_params"].get(k) != v:
                    out.append({"what": f"{e['short']} on {e['w']} runs with {k}={e['nets_params'].get(k)!r}, the worker has {v!r}",
                                "signature": {"clause": "connection-params", "key": k}})
            for vm, restr in wf["restrs"].items():
                for (suffix, variant, state, key, perm) in [tuple(g) for g in e["gets"]] + [tuple(s) for s in e["sets"]]:
                    if key == "vms" and suffix == vm and not _admits(restr, variant):
                        out.append({"what": f"{e['short']} with {vm} variant {variant} executed on {e['w']} whose restriction is {restr!r}",
                                    "signature": {"clause": "restricted-worker", "worker": e["w"]}})
            # sources named for every needed state
            for (suffix, variant, state, key, perm) in [tuple(g) for g in e["gets"]]:
                if state in ROOT_STATES or perm:
                    continue
                loc = e["locs"].get(suffix)
                expected = set(passed_by[(suffix, variant, state)]) | prev_producers[(suffix, variant, state)]
                if loc is None:
                    if expected:
                        out.append({"what": f"{e['short']} on {e['w']} is given no source location at all for {state} of {suffix} although {sorted(expected)} produced it in this run",
                                    "signature": {"clause": "producer-not-named", "state": state, "no_location": True}})
                    continue
                named = [l.partition(":")[0] for l in loc.split()]
                named_workers = {n for n in named if n}
                if "" not in named:
                    out.append({"what": f"{e['short']} on {e['w']}: the shared pool is not named as a source for {state} of {suffix} ({loc!r})",
                                "signature": {"clause": "shared-not-named"}})
                extra = named_workers - expected - prev_pass.get(_producer_hint(e, suffix, state), set()) - _prev_any(prev_pass)
                if extra:
                    out.append({"what": f"{e['short']} on {e['w']} is told that {sorted(extra)} hold {state} of {suffix} but they never produced it "
                                        f"(producers so far: {sorted(expected)}; get_location={loc!r})",
                                "signature": {"clause": "names-non-producer", "state": state}})
                lacking = expected - named_workers
                if lacking:
                    out.append({"what": f"{e['short']} on {e['w']} is not told that {sorted(lacking)} produced {state} of {suffix} (get_location={loc!r})",
                                "signature": {"clause": "producer-not-named", "state": state}})
                for n in named_workers:
                    wf2 = worker_facts.get(n)
                    if wf2 is None:
                        continue
                    for k, v in wf2["params"].items():
                        if e["nets_params"].get(f"{k}_{n}") != v:
                            out.append({"what": f"{e['short']} on {e['w']}: access parameter {k}_{n}={e['all_source_params'].get(f'{k}_{n}')!r} "
                                                f"differs from the source worker's {v!r}", "signature": {"clause": "source-access-params", "key": k}})
                            break
        elif e["k"] == "end" and e["status"] == "PASS":
            st = seq2start[e["seq"]]
            for (suffix, variant, state, key, perm) in [tuple(s) for s in st["sets"]]:
                passed_by[(suffix, variant, state)].add(e["w"])
    return out


def _strip_nets(name):
    return re.sub(r"\.nets\.[^.]+\.[^.]+", "", name)


def _producer_hint(e, suffix, state):
    return None


def _prev_any(prev_pass):
    out = set()
    for v in prev_pass.values():
        out |= v
    return out


def _admits(restr_lines, variant):
    comps = variant.split(".")
    for line in restr_lines.splitlines():
        line = line.strip()
        if not line:
            continue
        kind, _, rest = line.partition(" ")
        alts = [a.strip() for a in rest.split(",")]

        def has(a):
            parts = a.split(".")
            return any(comps[i:i + len(parts)] == parts for i in range(len(comps)))

        if kind == "only" and not any(has(a) for a in alts):
            return False
        if kind == "no" and any(has(a) for a in alts):
            return False
    return True


_wf_cache = {}


def worker_facts(scn):
    from vt.e1 import engine

    key = scn.parse_key()
    if key not in _wf_cache:
        _, swarms, _ = engine.build_base(scn)
        facts = {}
        for s in swarms.values():
            for w in s.workers:
                facts[w.id] = {"params": {k: v for k, v in w.params.items() if k.startswith("nets_")},
                               "restrs": {k: v for k, v in w.restrs.items() if v},
                               "nets": w.params.get("nets"),
                               "name_suffix": "." + w.params["name"]}
        _wf_cache[key] = facts
    return _wf_cache[key]


def c08m(scn, x):
    return c08(scn, x, worker_facts(scn))


# ------------------------------------------------------------------------------------------------
# C10
# ------------------------------------------------------------------------------------------------
ALL_STATUSES = ["fail", "error", "pass", "warn", "skip", "cancel", "interrupted", "unknown"]


def retry_config(scn):
    P = scn.params
    replay = bool(P.get("replay"))
    if replay:
        rerun = [s for s in str(P.get("rerun_status", "fail,error,warn")).split(",") if s]
    else:
        rerun = str(P.get("rerun_status", "")).split() or list(ALL_STATUSES)
    stop = str(P.get("stop_status", "")).split()
    mt = P.get("max_tries")
    mt = int(mt) if mt not in (None, "") else (2 if replay else 1)
    return replay, set(rerun), set(stop), mt


def should_continue(seq, max_tries, rerun, stop):
    """Reference decision table: may the test be executed (again) given the statuses obtained so far (incl. a previous job's)?"""
    if len(seq) == 0:
        return True
    if max_tries == 1:
        return False
    if any(s not in rerun for s in seq):
        return False
    if any(s in stop for s in seq):
        return False
    return len(seq) < max_tries


def c10(scn, x):
    out = []
    invalid = getattr(scn, "invalid_setting", None)
    if invalid:
        if x.exc is None:
            out.append({"what": f"invalid retry setting {invalid} was silently accepted ({len(starts(x))} executions, no error)",
                        "signature": {"clause": "invalid-accepted", "setting": invalid.split('=')[0]}})
        return out
    if x.exc is not None:
        out.append({"what": f"traversal failed with {x.exc}", "signature": {"clause": "exception"}})
        return out
    replay, rerun, stop, mt = retry_config(scn)
    nworkers = len(scn.nets.split())
    # previous job's statuses per worker-invariant test
    prev = collections.defaultdict(list)
    for r in scn.previous:
        prev[_strip_nets(r["name"])].append(r["status"].lower())
    by_test = collections.defaultdict(list)
    seq2start = {}
    for e in x.trace:
        if e["k"] == "start":
            seq2start[e["seq"]] = e
            by_test[e["ident"]].append(e)
    ended = collections.defaultdict(list)  # ident -> [(t, status)]
    for e in x.trace:
        if e["k"] == "end":
            status = e["status"]
            if status == "NORESULT":
                status = "ERROR"
            ended[e["ident"]].append((e["t"], status.lower(), e["seq"]))
    # found-at-first-examination setup is never run (C03); here only tests that were examined as missing or are stateless
    first_check = {}
    for e in x.trace:
        if e["k"] == "door" and e["do"] == "check" and e["ident"] not in first_check:
            first_check[e["ident"]] = e["answer"]
    for n in x.final["nodes"]:
        if n["flat"] or n["shared_root"] or n["clone_source"]:
            continue
        ident = n["ident"]
        if n["object_root"] or "stateless.noop" in ident:
            continue  # creation (two-step) is budgeted by C03
        execs = by_test.get(ident, [])
        uids = [e["uid"] for e in execs]
        if len(set(uids)) != len(uids):
            out.append({"what": f"executions of {short(ident)} share identifiers: {uids}", "signature": {"clause": "duplicate-uid"}})
    # per worker-invariant test: decision table
    idents = {n["ident"] for n in x.final["nodes"] if not n["flat"] and not n["shared_root"] and not n["clone_source"]
              and not n["object_root"] and "stateless.noop" not in n["ident"]}
    for ident in idents:
        stateful = any(n["sets"] for n in x.final["nodes"] if n["ident"] == ident)
        p = list(prev.get(ident, []))
        obtained = [s for (_, s, _) in sorted(ended[ident])]
        n_exec = len(by_test.get(ident, []))
        if stateful and first_check.get(ident) is True:
            if n_exec:
                out.append({"what": f"setup test {short(ident)} found present but executed {n_exec} times", "signature": {"clause": "present-but-run"}})
            continue
        if stateful and ident not in first_check and not n_exec:
            continue  # never examined (e.g. its dependants did not need it)
        # "unless a state it produces is missing": a missing state forces one execution whatever the previous result was
        if nworkers == 1:
            # exact count: execute while the table says continue
            expected = 0
            seq = list(p)
            outcomes = list(obtained)
            while should_continue(seq, mt, rerun, stop) or (stateful and first_check.get(ident) is False and expected == 0):
                if expected >= len(outcomes):
                    expected += 1  # would have needed one more execution than happened
                    break
                seq.append(outcomes[expected])
                expected += 1
            if expected != n_exec:
                out.append({"what": f"{short(ident)} executed {n_exec} times, the retry rules give exactly {expected} for previous={p} outcomes={obtained} "
                                    f"(max_tries={mt}, rerun={sorted(rerun) if len(rerun) < 8 else 'all'}, stop={sorted(stop)})",
                            "signature": {"clause": "wrong-count", "more": n_exec > expected}})
        else:
            # several workers: no execution may start once the statuses obtained so far (in trace order) forbid another try
            # results are shared within a reuse scope only (one worker / one swarm when the pool scope is narrowed; stateless tests: the whole run)
            per_scope = collections.defaultdict(lambda: list(p))
            flagged = False
            for ev in x.trace:
                if ev.get("ident") != ident or ev["k"] not in ("start", "end"):
                    continue
                sk = scope_key(seq2start[ev["seq"]]) if stateful else ("run",)
                obtained_so_far = per_scope[sk]
                if ev["k"] == "end":
                    obtained_so_far.append("error" if ev["status"] == "NORESULT" else ev["status"].lower())
                elif not flagged:
                    known = list(obtained_so_far)
                    forced_first = stateful and first_check.get(ident) is False and not any(e2["k"] == "start" and e2["ident"] == ident and e2["seq"] < ev["seq"] for e2 in x.trace)
                    if known and not forced_first and (any(s_ not in rerun for s_ in known) or any(s_ in stop for s_ in known)):
                        flagged = True
                        out.append({"what": f"{short(ident)} started again on {ev['w']} at t={ev['t']} although statuses {known} were already obtained "
                                            f"(rerun={sorted(rerun) if len(rerun) < 8 else 'all'}, stop={sorted(stop)})",
                                    "signature": {"clause": "started-after-stop"}})
            if n_exec > max(mt, 1) and not stateful:
                out.append({"what": f"{short(ident)} executed {n_exec} times with max_tries={mt}", "signature": {"clause": "over-budget"}})
    # the two-step creation of an object is retried like a test: never more attempts than max_tries per reuse scope, distinct identifiers per worker
    for v in c03(scn, x):
        sig = v.get("signature", {})
        if sig.get("clause") == "budget" and sig.get("kind") in ("creation-attempt", "install"):
            out.append({"what": "object creation: " + v["what"], "signature": {"clause": "creation-over-budget", "kind": sig["kind"]}})
    # replay: "... unless a state it produces is missing" - a setup test with an acceptable previous result whose state is in no pool
    # at all when the run starts has to be executed again (decided from the world, not from the code's own scan requests)
    if replay and scn.previous and not getattr(scn, "dry", False):
        initial = set(scn.shared) | {it for items in scn.own.values() for it in items}
        setup_failed = any(e["k"] == "end" and e["status"] != "PASS" and any(n["sets"] for n in x.final["nodes"] if n["ident"] == e["ident"])
                           for e in x.trace)
        for ident in sorted(idents):
            sets = next((n["sets"] for n in x.final["nodes"] if n["ident"] == ident and n["sets"]), [])
            p = prev.get(ident, [])
            if not sets or not p or all(s_ in rerun for s_ in p) or setup_failed:
                continue
            missing = [(t[0], t[2]) for t in sets if (t[0], t[2]) not in initial and not t[4]]
            if missing and not by_test.get(ident):
                out.append({"what": f"replay: {short(ident)} has previous results {p} and its state {missing} is in no pool, but it was not executed again",
                            "signature": {"clause": "missing-state-not-rerun"}})
    # each execution reads its own result: the results stored on the nodes are the outcomes the world assigned, try by try
    for n in x.final["nodes"]:
        if n["flat"] or n["shared_root"] or n["object_root"]:
            continue  # (an object's creation node also books failed configuration steps as tries: not a one-to-one read-back)
        mine = [(e["seq"], e["uid"]) for e in by_test.get(n["ident"], []) if e["name"] == n["name"]]
        world = []
        for seq, uid in mine:
            end = next((s for (t, s, q) in ended[n["ident"]] if q == seq), None)
            if end is not None:
                world.append(end.upper())
        stored = [r for r in n["results"]][len([r for r in scn.previous if re.search(re.escape(_strip_nets(r["name"])), n["name"])]):] if False else list(n["results"])
        nprev = len(stored) - len(world)
        if nprev < 0 or stored[nprev:] != world:
            # time-based PASS->WARN conversion is part of the documented behaviour; tolerate only that
            conv = len(stored) - nprev == len(world) and all(a == b or (b == "PASS" and a == "WARN") for a, b in zip(stored[max(nprev, 0):], world))
            if not conv:
                out.append({"what": f"results recorded for {short(n['ident'])} on its node are {stored} but its executions ended {world} (in order)",
                            "signature": {"clause": "wrong-result-read"}})
    # verdict
    names = collections.defaultdict(list)
    for r in x.final["job_results"]:
        names[r["name"]].append(r["status"])
    expected_ok = all(any(s in ACCEPTABLE for s in sts) for sts in names.values())
    if x.final["all_ok"] is not expected_ok:
        out.append({"what": f"run reported {'successful' if x.final['all_ok'] else 'failed'} but the executed tests' results are {dict(names)}",
                    "signature": {"clause": "verdict"}})
    return out


def _ended_before(x, ident, start_event, t):
    return True
