"""The closed drivers (scenario matrix of DESIGN §2.1.5)."""
from __future__ import annotations

from vt.e1.engine import Scenario

PF = ("PASS", "FAIL")


def T1(nets="net1 net2", **kw):
    return Scenario("T1:" + nets.replace(" ", "+"), "normal..tutorial1", nets, **kw)


def T2(nets="net1 net2", **kw):
    return Scenario("T2:" + nets.replace(" ", "+"), "only normal\nonly tutorial1,tutorial2\n", nets, **kw)


def T3(nets="net1 net2", **kw):
    return Scenario("T3:" + nets.replace(" ", "+"), "normal..tutorial3", nets, **kw)


def T13(nets="net1 net2", **kw):
    return Scenario("T13:" + nets.replace(" ", "+"), "only normal\nonly tutorial1,tutorial3\n", nets, **kw)


def G1(nets="net1 net2", lazy=True, **kw):
    return Scenario("G1gui:" + nets.replace(" ", "+") + ("/lazy" if lazy else "/eager"), "leaves..tutorial_gui", nets, lazy=lazy, **kw)


def G2(nets="net1 net2", lazy=True, **kw):
    return Scenario("G2get:" + nets.replace(" ", "+") + ("/lazy" if lazy else "/eager"), "leaves..tutorial_get", nets, lazy=lazy, **kw)


def G3(nets="net1", lazy=True, **kw):
    return Scenario("G3finale:" + nets.replace(" ", "+") + ("/lazy" if lazy else "/eager"), "leaves..tutorial_finale", nets, lazy=lazy, **kw)


VM1_CHAIN = [("image1_vm1", "install"), ("image1_vm1", "customize"), ("vm1", "on_customize")]
VM1_ALL = VM1_CHAIN + [("image1_vm1", "connect"), ("image1_vm1", "linux_virtuser")]
VM2_ALL = [("image1_vm2", "install"), ("image1_vm2", "customize"), ("image1_vm2", "windows_virtuser")]


_prev_cache = {}


def previous_results(base_scn, status_of=lambda name: "PASS"):
    """Results of a previous job for a replay: the tests a clean default run of `base_scn` executes, with chosen statuses."""
    from vt.e1 import engine

    key = base_scn.parse_key()
    if key not in _prev_cache:
        x = engine.execute(base_scn.variant("/prev", shared=(), own={}, previous=[]), [])
        _prev_cache[key] = [r["name"] for r in x.final["job_results"]]
    out = []
    for name in _prev_cache[key]:
        st = status_of(name)
        if st is not None:
            out.append({"name": name, "status": st, "time_elapsed": "1.0"})
    return out


def replay_of(base_scn, tag, status_of=lambda name: "PASS", jobs=1, **kw):
    """Scenario replaying a previous job of `base_scn` (same selection and workers) with the given pool contents; jobs=2 spreads the
    previous results over two replayed jobs (setup tests in the first, the rest in the second)."""
    prev = previous_results(base_scn, status_of)
    s = base_scn.variant(f"/replay[{tag}]" + (f"x{jobs}jobs" if jobs > 1 else ""), params={"replay": " ".join(f"job{i + 1}" for i in range(jobs))}, previous=prev, **kw)
    if jobs > 1:
        first = [r for r in prev if ".internal." in "." + r["name"] or ".original." in "." + r["name"]]
        rest = [r for r in prev if r not in first]
        s.previous_jobs = [first, rest] + [[] for _ in range(jobs - 2)]
    return s


def crash_residues(base_scn, deviations=True, limit=40):
    """Scenarios whose initial pools are what a run of `base_scn` leaves behind when the job is killed right after some test ended
    (graph state lost, pools kept, tests in flight leave nothing): every distinct pool content seen at an event boundary of the default
    schedule and of every single-choice deviation from it."""
    from vt.e1 import engine

    seen, out = set(), []
    x0 = engine.execute(base_scn, [])
    prefixes = [[]]
    if deviations:
        for i, (kind, n, _) in enumerate(x0.points):
            for alt in range(1, n):
                prefixes.append(x0.choices[:i] + [alt])
    for pre in prefixes:
        x = x0 if not pre else engine.execute(base_scn, pre)
        for snap in x.snapshots:
            key = str(sorted((k, tuple(map(tuple, v))) for k, v in snap.items()))
            if key in seen or not snap:
                continue
            seen.add(key)
            own = {w: [(o, s_) for (o, v, s_) in items if s_ != "root"] for w, items in snap.items() if w != "shared"}
            shared = [(o, s_) for (o, v, s_) in snap.get("shared", [])]
            tag = ";".join(f"{w}:" + "+".join(s_ for _, s_ in items) for w, items in sorted(own.items()) if items)
            out.append(base_scn.variant(f"/residue[{tag}]", own=own, shared=tuple(shared) + tuple(base_scn.shared)))
            if len(out) >= limit:
                return out
    return out


# worker kinds x reuse scopes x slot bindings: the configuration dimension every traversal property quantifies over
# (scopes without "own" are the pool-update mode of the manual tools - saving requires the local state to exist already - not a way to run tests)
LXC_SCOPES = ("own", "own shared", "own swarm shared", "own cluster shared", "own swarm cluster")
REMOTE_SCOPES = ("own shared", "own swarm shared", "own cluster shared", "own swarm cluster")
SLOTS = (("net1 net2", "5 "), ("net1 net2", "5 7"), ("net1 net2", "gw1.lan/1 gw1.lan/2"), ("cluster1.net6 net2", "5 7"),
         ("cluster1.net6 cluster1.net7", "c1.lan/1 c1.lan/2"), ("net1 net2 net3", "5 7"))


def config_matrix(make, tier, k_quick=1, k_thorough=2, weight=0.3, extra_params=None, skip=()):
    """Plan entries running `make(nets, params=..., ...)` under every worker-kind / pool-scope / slot configuration.

    skip: tags already covered by the caller's own entries."""
    q = tier == "quick"
    k = k_quick if q else k_thorough
    out = []

    def add(nets, params, tag):
        if tag in skip:
            return
        pr = dict(extra_params or {})
        pr.update(params)
        out.append((make(nets, params=pr).variant("/cfg:" + tag), k, weight))

    for scope in LXC_SCOPES:
        add("net1 net2", {"pool_scope": scope}, "lxc,scope=" + scope.replace(" ", "+"))
    for scope in REMOTE_SCOPES:
        add("cluster1.net6 cluster1.net7 cluster2.net6", {"pool_scope": scope}, "remote,scope=" + scope.replace(" ", "+"))
    add("cluster1.net6 net2", {}, "remote+lxc")
    add("cluster1.net6 net2", {"pool_scope": "own shared"}, "remote+lxc,scope=own+shared")
    add("cluster1.net6 net2", {"pool_scope": "own swarm shared"}, "remote+lxc,scope=own+swarm+shared")
    add("net2 cluster1.net6", {"pool_scope": "own swarm shared"}, "lxc+remote,scope=own+swarm+shared")
    add("net0 net1", {}, "serial+lxc")
    for nets, slots in SLOTS:
        add(nets, {"slots": slots}, f"slots={slots!r}@{nets.replace(' ', '+')}")
        if not q or slots in ("5 ", "gw1.lan/1 gw1.lan/2"):
            add(nets, {"slots": slots, "pool_scope": "own shared"}, f"slots={slots!r}@{nets.replace(' ', '+')},scope=own+shared")
    return out


# run settings the traversal reads; every pair of non-default values is run together (interactions between two settings are where
# single-dimension sweeps are blind)
SETTINGS = [
    ("pool_scope", ("own shared", "own swarm shared")), ("max_tries", ("2",)), ("max_concurrent_tries", ("1", "2")), ("rerun_status", ("fail",)),
    ("stop_status", ("pass",)), ("test_timeout", ("1", "3600")), ("dry_run", ("yes",)), ("pool_filter", ("copy", "block")),
    ("slots", ("5 ", "gw1.lan/1 gw1.lan/2")), ("unset_mode", ("fi",)),
]


def settings_pairs(make, tier, k_quick=1, k_thorough=1, weight=0.2, lazy_too=True):
    """Plan entries for every pair of non-default values of two different settings (plus lazy parsing as a setting of its own)."""
    import itertools

    q = tier == "quick"
    out = []
    singles = [(key, v) for key, vals in SETTINGS for v in (vals[:1] if q else vals)]
    combos = [(a, b) for a, b in itertools.combinations(singles, 2) if a[0] != b[0]]
    for a, b in combos:
        params = {a[0]: a[1], b[0]: b[1]}
        scn = make(params=params).variant(f"/set:{a[0]}={a[1]!r}+{b[0]}={b[1]!r}")
        if params.get("test_timeout") == "3600":
            scn.max_steps, scn.max_vtime = 400000, 100000.0
        out.append((scn, k_quick if q else k_thorough, weight))
    if lazy_too:
        for a in singles:
            scn = make(params={a[0]: a[1]}, lazy=True).variant(f"/set:lazy+{a[0]}={a[1]!r}")
            if a[1] == "3600":
                scn.max_steps, scn.max_vtime = 400000, 100000.0
            out.append((scn, k_quick if q else k_thorough, weight))
    return out
