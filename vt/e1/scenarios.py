"""The closed drivers (scenario matrix of DESIGN §2.1.5)."""
from __future__ import annotations

from vt.e1.engine import Scenario

PF = ("PASS", "FAIL")


def T1(nets="net1 net2", **kw):
    return Scenario("T1:" + nets.replace(" ", "+"), "normal..tutorial1", nets, **kw)


def T2(nets="net1 net2", **kw):
    return Scenario("T2:" + nets.replace(" ", "+"), "only normal\nonly tutorial1,tutorial2\n", nets, **kw)


def T3(nets="net1 net2", **kw):
    return Scenario("T3:" + nets.replace(" ", "+"), "normal..tutorial3", nets, **kw)


def T13(nets="net1 net2", **kw):
    return Scenario("T13:" + nets.replace(" ", "+"), "only normal\nonly tutorial1,tutorial3\n", nets, **kw)


def G1(nets="net1 net2", lazy=True, **kw):
    return Scenario("G1gui:" + nets.replace(" ", "+") + ("/lazy" if lazy else "/eager"), "leaves..tutorial_gui", nets, lazy=lazy, **kw)


def G2(nets="net1 net2", lazy=True, **kw):
    return Scenario("G2get:" + nets.replace(" ", "+") + ("/lazy" if lazy else "/eager"), "leaves..tutorial_get", nets, lazy=lazy, **kw)


def G3(nets="net1", lazy=True, **kw):
    return Scenario("G3finale:" + nets.replace(" ", "+") + ("/lazy" if lazy else "/eager"), "leaves..tutorial_finale", nets, lazy=lazy, **kw)


VM1_CHAIN = [("image1_vm1", "install"), ("image1_vm1", "customize"), ("vm1", "on_customize")]
VM1_ALL = VM1_CHAIN + [("image1_vm1", "connect"), ("image1_vm1", "linux_virtuser")]
VM2_ALL = [("image1_vm2", "install"), ("image1_vm2", "customize"), ("image1_vm2", "windows_virtuser")]
