"""E1 `travmc` — stateless, deviation-bounded exploration of the real graph traversal in virtual time.

What is real: TestGraph.traverse_object_trees and everything below it (traverse_node, reverse_node,
traverse_terminal_node, run_test_node, the run/clean/rerun policies, pull_locations, scan_states,
sync_states, lazy parsing), TestRunner.run_workers / all_results_ok when a scenario goes through them.
What is modelled: `TestRunner.run_test_task` (a test: chosen duration, chosen outcome, effect on the world)
and `cartgraph.node.door` (state control executed on a worker, answered by the world model).
"""
from __future__ import annotations

import asyncio
import collections
import copy
import json
import os
import random
import re
import time
import unittest.mock as mock

from vt import common
from vt.e1.vloop import Chooser, Deadlock, Horizon, ReplayDivergence, VLoop

P = 0.1  # the back-off period for test_timeout=100, max_tries=1: round(max(100*1/1000, 0.1), 2)

ROOT_STATES = ("root", "0root", "boot", "0boot")


# ------------------------------------------------------------------------------------------------
# acceleration: memoised Cartesian parsing (pure function of the parse steps)
# ------------------------------------------------------------------------------------------------
_memo = {}
_memo_installed = False
_memo_stats = {"hits": 0, "misses": 0}


def install_memo():
    global _memo_installed
    if _memo_installed:
        return
    from avocado_i2n import params_parser as param
    from virttest.utils_params import Params

    orig = param.Reparsable.get_params

    def get_params(self, list_of_keys=None, dict_index=0, **kw):
        key = (tuple((type(s).__name__, s.parsable_form()) for s in self.steps), dict_index,
               tuple(list_of_keys) if list_of_keys else None)
        if key not in _memo:
            _memo_stats["misses"] += 1
            _memo[key] = dict(orig(self, list_of_keys=list_of_keys, dict_index=dict_index, **kw))
        else:
            _memo_stats["hits"] += 1
        return Params({k: (copy.copy(v) if isinstance(v, (list, dict)) else v) for k, v in _memo[key].items()})

    get_params._orig = orig
    param.Reparsable.get_params = get_params
    _memo_installed = True


def memo_selfcheck(sample: int = 25) -> int:
    """Differentially compare memoised parses with the original function on entries seen so far."""
    from avocado_i2n import params_parser as param

    orig = param.Reparsable.get_params._orig
    checked = 0
    for (steps, dict_index, keys), cached in list(_memo.items())[:sample]:
        r = param.Reparsable()
        for typ, form in steps:
            if typ == "ParsedFile":
                r.steps.append(param.ParsedFile(form.replace("include ", "", 1).strip()))
            else:
                # strings and dictionaries are both fed to the parser through their parsable form
                r.steps.append(param.ParsedStr(form))
        fresh = dict(orig(r, list_of_keys=list(keys) if keys else None, dict_index=dict_index))
        if fresh != cached:
            diff = {k: (fresh.get(k), cached.get(k)) for k in set(fresh) | set(cached) if fresh.get(k) != cached.get(k)}
            raise common.HarnessError("memoised Cartesian parse differs from the original: " + str(diff)[:500])
        checked += 1
    return checked


# ------------------------------------------------------------------------------------------------
# scenario
# ------------------------------------------------------------------------------------------------
class Scenario:
    """A closed driver: what is parsed, who traverses, what the world initially contains, what may vary."""

    def __init__(self, name, restriction, nets, lazy=False, vm_strs=None, params=None, run_params=None,
                 D=(1.0, 0.5, 3.0), O=("PASS", "FAIL"), shared=(), own=None, suite="mini", previous=None,
                 persistent=None, timeouts=None, note=""):
        self.name = name
        self.restriction = restriction  # e.g. "normal..tutorial1"
        self.nets = nets  # "net1 net2"
        self.lazy = lazy
        self.vm_strs = vm_strs or {"vm1": "only CentOS\n", "vm2": "only Win10\n", "vm3": "only Ubuntu\n"}
        # parameter values are strings, as they arrive from the Cartesian configs and the command line
        self.params = {"nets": nets, "shared_pool": "/mnt/local/images/shared", "test_timeout": "100"}
        self.params.update({k: str(v) for k, v in (params or {}).items()})
        self.run_params = run_params  # params given to traverse_object_trees (default: self.params)
        self.D = tuple(D)
        self.O = tuple(O)
        self.shared = tuple(shared)  # ((long_suffix, state), ...)
        self.own = {k: tuple(v) for k, v in (own or {}).items()}  # worker id -> ((long_suffix, state), ...)
        self.suite = suite
        self.previous = previous or []  # previous job results [{"name":..., "status":...}]
        self.persistent = persistent  # (regex on test name, status): forced outcome on every execution of matching tests
        self.note = note

    def describe(self):
        return {"name": self.name, "restriction": self.restriction, "nets": self.nets, "lazy": self.lazy,
                "params": {k: v for k, v in self.params.items() if k not in ("nets", "shared_pool")},
                "D": list(self.D), "O": list(self.O), "shared": [list(x) for x in self.shared],
                "own": {k: [list(x) for x in v] for k, v in self.own.items()}, "suite": self.suite,
                "previous": self.previous, "persistent": list(self.persistent) if self.persistent else None,
                "vm_strs": self.vm_strs, "run_params": self.run_params, "watch": list(getattr(self, "watch", ()))}

    def variant(self, name_suffix, **kw):
        s = copy.copy(self)
        s.params = dict(self.params)
        s.name = self.name + name_suffix
        for k, v in kw.items():
            if k == "params":
                s.params.update({k2: str(v2) for k2, v2 in v.items()})
            else:
                setattr(s, k, v)
        return s

    def parse_key(self):
        """Scenarios with equal parse keys share one parsed base graph."""
        return json.dumps([self.restriction, self.nets, self.lazy, self.vm_strs, self.params, self.suite], sort_keys=True)


_base_cache = {}


def build_base(scn: Scenario):
    """Parse the scenario's graph once; executions start from deep copies."""
    key = scn.parse_key()
    if key in _base_cache:
        return _base_cache[key]
    from avocado_i2n.cartgraph import TestGraph, TestSwarm

    install_memo()
    restr = "".join(f"only {part}\n" for part in scn.restriction.split("\n") if part) if "only " not in scn.restriction else scn.restriction
    t0 = time.time()
    if scn.lazy:
        g = TestGraph()
        g.restrs.update(scn.vm_strs)
        flat = TestGraph.parse_flat_nodes(restr)
        for n in flat:
            n.update_restrs(scn.vm_strs)
        g.new_nodes(flat)
        g.parse_shared_root_from_object_roots(scn.params)
        g.new_workers(TestGraph.parse_workers(scn.params))
    else:
        g = TestGraph.parse_object_trees(None, restr, "", dict(scn.vm_strs), dict(scn.params))
    base = (g, TestSwarm.run_swarms, time.time() - t0)
    _base_cache[key] = base
    return base


# ------------------------------------------------------------------------------------------------
# world model
# ------------------------------------------------------------------------------------------------
class World:
    """pools[location] = set of (object long suffix, variant tag, state); variant tag '*' matches any variant."""

    def __init__(self, scn: Scenario):
        self.pools = collections.defaultdict(set)
        for (o, s) in scn.shared:
            self.pools["shared"].add((o, "*", s))
        for w, items in scn.own.items():
            for (o, s) in items:
                self.pools[w].add((o, "*", s))
        self.roots = collections.defaultdict(set)  # worker -> set of (image long suffix, variant)

    def has(self, loc, item):
        o, v, s = item
        return item in self.pools[loc] or (o, "*", s) in self.pools[loc]

    def add(self, loc, item):
        self.pools[loc].add(item)

    def discard(self, loc, item):
        o, v, s = item
        self.pools[loc].discard(item)
        self.pools[loc].discard((o, "*", s))

    def snapshot(self):
        return {loc: sorted(list(i) for i in items) for loc, items in sorted(self.pools.items()) if items}


def obj_variant(o):
    return o.id[len(o.long_suffix) + 1:]


def object_states(node, do):
    """[(long_suffix, variant, state, key, permanent)] for the node's vm/image objects having a `<do>_state`."""
    out = []
    for o in node.objects:
        if o.key == "nets":
            continue
        st = o.object_typed_params(node.params).get(f"{do}_state")
        if st:
            out.append((o.long_suffix, obj_variant(o), st, o.key, o.is_permanent()))
    return out


def ident_of(name: str) -> str:
    """Worker-invariant identity of a test: its name without the trailing nets variant (own normalisation)."""
    return re.sub(r"\.nets\.[^.]+\.[^.]+", "", name)


class Env:
    """Everything an execution records."""

    def __init__(self, scn, loop, graph):
        self.scn, self.loop, self.graph = scn, loop, graph
        self.world = World(scn)
        self.trace = []
        self.action = None
        self.params = None
        self.current_node = None
        self.exec_seq = 0
        self.snapshots = []  # world snapshots at event boundaries (for crash residues)
        self.workers = {}

    def now(self):
        return round(self.loop.time() / P, 4)

    def ev(self, kind, **kw):
        e = {"k": kind, "t": self.now()}
        e.update(kw)
        self.trace.append(e)
        return e


ENV: Env = None
BINDING = {"on": False, "validated": 0, "mismatches": []}


def scope_of(starter_params, source_wid, workers):
    """Reference classification of a get_location entry relative to the starting worker."""
    if source_wid == "":
        return "shared"
    src = workers.get(source_wid)
    if src is None:
        return "unknown"
    if (starter_params.get("nets_gateway") or "") != (src.params.get("nets_gateway") or ""):
        return "cluster"
    if (starter_params.get("nets_host") or "") != (src.params.get("nets_host") or ""):
        return "swarm"
    return "own"


class FakeSession:
    """What remote.wait_for_login hands out: a session bound to one shell address (the environment a command really runs in)."""

    def __init__(self, host, port):
        self.host, self.port = str(host), str(port)

    @property
    def addr(self):
        return f"{self.host}:{self.port}"

    def cmd_output(self, *a, **k):
        return "date"

    cmd = cmd_output

    def close(self):
        pass

    @property
    def wid(self):
        """The worker whose environment this session leads to (by its configured shell address)."""
        ws = ENV.workers
        ws.get("")  # lazily filled registries
        owners = [w.id for w in ws.values() if f"{w.params.get('nets_shell_host')}:{w.params.get('nets_shell_port')}" == self.addr]
        if len(owners) == 1:
            return owners[0]
        node = ENV.current_node
        if node is not None and node.started_worker is not None and (not owners or node.started_worker.id in owners):
            return node.started_worker.id  # address shared by several workers of the configuration: no way to tell them apart
        return owners[0] if owners else self.addr


def fake_wait_for_login(client, host, port, *a, **k):
    return FakeSession(host, port)


class Door:
    """Stands in for aexpect.remote_door inside cartgraph.node: answers state control from the world model."""

    DUMP_CONTROL_DIR = "/tmp"

    @staticmethod
    def set_subcontrol_parameter(_, __, do):
        ENV.action = do
        return "ctl"

    @staticmethod
    def set_subcontrol_parameter_dict(_, __, p):
        ENV.params = p
        return "ctl"

    @staticmethod
    def run_subcontrol(session, path):
        from aexpect.exceptions import ShellCmdError

        p, do, node = ENV.params, ENV.action, ENV.current_node
        wid = session if isinstance(session, str) else getattr(session, "wid", str(session))
        variants = {o.long_suffix: obj_variant(o) for o in node.objects if o.key != "nets"} if node is not None else {}
        items, modes = [], {}
        for k, v in p.items():
            m = re.match(rf"{do}_state_(images|vms)_(.+)$", k)
            if m and v:
                suffix = m.group(2)
                items.append((suffix, variants.get(suffix, "*"), v))
                if do == "unset":
                    modes[suffix] = p.get(f"unset_mode_{m.group(1)}_{suffix}")
        items.sort()
        scope = str(p.get("pool_scope", "own swarm cluster shared")).split()
        asked_by = node.started_worker.id if node is not None and node.started_worker is not None else None
        e = ENV.ev("door", do=do, w=wid, asked_by=asked_by, session=getattr(session, "addr", None), node=node.params["name"] if node is not None else None,
                   ident=ident_of(node.params["name"]) if node is not None else None, items=[list(i) for i in items], scope=scope, modes=modes)
        real = None
        if BINDING["on"] and node is not None and do in ("check", "unset", "get"):
            from vt.e1 import binding

            try:
                real = binding.replay_request(do, p, ENV.world, wid, variants)
            except Exception as exc:  # noqa: BLE001
                real = ("exception " + type(exc).__name__ + ": " + str(exc)[:120], None)
        if do == "check":
            ok = True
            for it in items:
                here = ("own" in scope and ENV.world.has(wid, it)) or ("shared" in scope and ENV.world.has("shared", it))
                if not here:
                    ok = False
            e["answer"] = ok
            if real is not None:
                BINDING["validated"] += 1
                if real[0] != ok:
                    BINDING["mismatches"].append({"do": do, "worker": wid, "items": [list(i) for i in items], "model": ok, "real": str(real[0])})
            if not ok:
                raise ShellCmdError(1, "cmd", "AssertionError")
        elif do == "unset":
            for it in items:
                if "own" in scope:
                    ENV.world.discard(wid, it)
                if "shared" in scope and p.get("unset_location_%s_%s" % ("images", it[0])) is None:
                    pass
        elif do == "get":
            for it in items:
                if ENV.world.has("shared", it):
                    ENV.world.add(wid, it)
        if real is not None and do != "check":
            BINDING["validated"] += 1
            model_own = sorted((o, s_) for (o, v, s_) in ENV.world.pools[wid])
            real_own = sorted((o, s_) for (o, v, s_) in (real[1] or [])) if real[1] is not None else None
            if real_own is None or set(model_own) != set(real_own):
                BINDING["mismatches"].append({"do": do, "worker": wid, "items": [list(i) for i in items], "model_own_pool": model_own, "real": str(real)[:300]})


def _start_record(node):
    """Snapshot everything the monitors need at the moment a test starts."""
    w = node.started_worker
    params = node.params
    name = params["name"]
    gets = [g for g in object_states(node, "get")]
    sets = [s for s in object_states(node, "set")]
    locs = {}
    for o in node.objects:
        if o.key == "nets":
            continue
        loc = params.get(f"get_location_{o.long_suffix}")
        if loc is not None:
            locs[o.long_suffix] = loc
    rec = {
        "w": w.id if w is not None else None,
        "name": name,
        "short": params.get("shortname"),
        "ident": ident_of(name),
        "uid": node.id_test.uid,
        "prefix": node.prefix,
        "gets": [list(g) for g in gets],
        "sets": [list(s) for s in sets],
        "locs": locs,
        "nets": params.get("nets"),
        "nets_params": {k: v for k, v in params.items() if k.startswith("nets_")},
        "flat": node.is_flat(),
        "clone_source": len(node.cloned_nodes) > 0,
        "object_root": params.get("object_root"),
        "pool_scope": params.get("pool_scope", ""),
        "spawner": params.get("nets_spawner"),
        "max_tries": params.get("max_tries"),
        "max_concurrent_tries": params.get("max_concurrent_tries"),
        "vms": params.get("vms"),
        "type": params.get("type"),
        "vm_action": params.get("vm_action"),
        "dry_run": params.get("dry_run"),
        "swarm": w.swarm_id if w is not None else None,
    }
    rec["shell_addr"] = f"{params.get('nets_shell_host')}:{params.get('nets_shell_port')}"
    rec["handle"] = None
    if w is not None:
        # as TestRunner.run_test_task chooses the spawner handle of the task
        if params.get("nets_spawner") == "lxc":
            rec["handle"] = params.get("nets_host") or "process"
        elif params.get("nets_spawner") == "remote":
            sess = w.get_session()
            rec["handle"] = getattr(sess, "addr", str(sess))
    for k in getattr(ENV.scn, "watch", ()):
        if k.endswith("@vm"):
            # the value as the vm it is applied to sees it
            rec["p_" + k] = {vm: params.object_params(vm).get(k[:-3]) for vm in params.objects("vms")}
        else:
            rec["p_" + k] = params.get(k)
    return rec


async def fake_run_test_task(self, node):
    """The world's model of one test execution on a worker."""
    env = ENV
    rec = _start_record(node)
    wid = rec["w"]
    env.exec_seq += 1
    seq = env.exec_seq
    starter = node.started_worker
    # availability of required states (reference model of get_mode=ra)
    missing = []
    scopes = rec["pool_scope"].split()
    for (suffix, variant, state, key, permanent) in object_states(node, "get"):
        if state in ROOT_STATES or permanent:
            continue
        item = (suffix, variant, state)
        where = None
        if "own" in scopes and env.world.has(wid, item):
            where = wid
        else:
            for loc in rec["locs"].get(suffix, "").split():
                src, _, _path = loc.partition(":")
                sc = scope_of(starter.params, src, env.workers)
                if sc == "own":
                    sc_ok = "own" in scopes
                else:
                    sc_ok = sc in scopes
                if sc_ok and env.world.has(src or "shared", item):
                    where = src or "shared"
                    break
        if where is None:
            missing.append(list(item))
        elif where != wid and "own" in scopes:
            env.world.add(wid, item)  # downloaded into the worker's cache
    rec["missing"] = missing
    rec["seq"] = seq
    env.ev("start", **rec)
    label = f"{wid}:{rec['short']}"
    d = env.scn.D[env.loop.ch.choose("DUR", len(env.scn.D), label)]
    env.loop.mark_next_timer_free(label)
    await asyncio.sleep(d * P)
    forced = None
    if missing:
        forced = "ERROR"
    elif env.scn.persistent and re.search(env.scn.persistent[0], rec["name"]):
        forced = env.scn.persistent[1]
    if forced is not None:
        status = forced
    else:
        status = env.scn.O[env.loop.ch.choose("OUT", len(env.scn.O), label)]
    if status == "PASS":
        for (suffix, variant, state, key, permanent) in object_states(node, "set"):
            env.world.add(wid, (suffix, variant, state))
    env.ev("end", w=wid, name=rec["name"], ident=rec["ident"], uid=rec["uid"], status=status, dur=d, seq=seq,
           forced=forced is not None)
    env.snapshots.append(env.world.snapshot())
    if status != "NORESULT":
        tid = type("TID", (), {"uid": rec["uid"], "name": rec["name"]})()
        self.job.result.tests.append({"name": tid, "status": status, "time_elapsed": str(d), "logdir": "."})


def _install_patches(stack):
    from avocado_i2n.cartgraph import node as nodemod
    from avocado_i2n.cartgraph import worker as workermod
    from avocado_i2n.plugins.runner import TestRunner

    stack.enter_context(mock.patch.object(nodemod, "door", Door))
    stack.enter_context(mock.patch.object(TestRunner, "run_test_task", fake_run_test_task))
    # the real session cache of the workers over a login stand-in: a session leads to one shell address
    stack.enter_context(mock.patch.object(workermod.remote, "wait_for_login", fake_wait_for_login))
    for attr, val in list(vars(workermod.TestWorker).items()):
        if isinstance(val, dict) and not attr.startswith("__"):
            stack.enter_context(mock.patch.object(workermod.TestWorker, attr, {}))
    stack.enter_context(mock.patch.object(workermod.TestWorker, "start", lambda self: True))
    orig_scan, orig_sync = nodemod.TestNode.scan_states, nodemod.TestNode.sync_states

    def scan_states(self):
        ENV.current_node = self
        return orig_scan(self)

    def sync_states(self, params):
        ENV.current_node = self
        return orig_sync(self, params)

    stack.enter_context(mock.patch.object(nodemod.TestNode, "scan_states", scan_states))
    stack.enter_context(mock.patch.object(nodemod.TestNode, "sync_states", sync_states))


def _origin_of(exc):
    """'harness' when the innermost frame of the traceback lies in /verif (a stub or the virtual loop raised by itself), else 'code'."""
    import traceback

    tb = traceback.extract_tb(exc.__traceback__)
    if not tb:
        return "code"
    if isinstance(exc, (Horizon, Deadlock)):
        return "code"  # raised by the virtual loop on purpose: non-termination / deadlock of the code under test
    last = tb[-1].filename
    if last.startswith(common.VERIF + "/"):
        return "harness"
    if isinstance(exc, (AttributeError, TypeError)) and any(w in str(exc) for w in ("Door", "fake_run_test_task", "MagicMock", "LazyWorkers")):
        return "harness"  # the code under test asked a stand-in for something it does not provide
    return "code"


_prev_dirs = {}


def _write_previous_jobs(jobs):
    """results.json files of the previous jobs (job1, job2, ...) in a scratch logs directory; returns the directory."""
    key = common.stable_hash(jobs)
    if key not in _prev_dirs:
        d = os.path.join(common.workdir(), "prevjobs", key)
        for i, results in enumerate(jobs):
            os.makedirs(os.path.join(d, f"job{i + 1}"), exist_ok=True)
            final = os.path.join(d, f"job{i + 1}", "results.json")
            if not os.path.exists(final):
                # several explorer processes may need the same file at the same time: write it aside and publish it atomically
                tmp = f"{final}.{os.getpid()}.tmp"
                with open(tmp, "w") as f:
                    json.dump({"tests": [dict(r) for r in results]}, f)
                os.replace(tmp, final)
        _prev_dirs[key] = d
    return _prev_dirs[key]


class Execution:
    __slots__ = ("choices", "points", "trace", "exc", "exc_type", "final", "snapshots", "steps", "vtime", "graph", "swarms", "exc_origin")


def execute(scn: Scenario, prefix=(), want_snapshots=False, keep_graph=False) -> Execution:
    """One complete execution of the scenario under the given choice prefix (defaults afterwards)."""
    global ENV
    import contextlib

    from avocado_i2n.cartgraph import TestSwarm
    from avocado_i2n.plugins.runner import TestRunner

    base_graph, base_swarms, _ = build_base(scn)
    g, swarms = copy.deepcopy((base_graph, base_swarms))
    TestSwarm.run_swarms = swarms
    runner = TestRunner()
    job = mock.MagicMock()
    job.result.tests = []
    job.logdir = "."
    job.timeout = None
    runner.job = job
    # previous jobs are loaded the way a run does it: from results.json files through the runner's own loader
    runner.previous_results = []
    if scn.previous:
        jobs = getattr(scn, "previous_jobs", None) or [scn.previous]
        logs = _write_previous_jobs(jobs)
        names = " ".join(f"job{i + 1}" for i in range(len(jobs)))
        job.config = {"param_dict": dict(scn.params, replay=names), "datadir.paths.logs_dir": logs}
        runner.results_from_previous_jobs()
    g.runner = runner
    ch = Chooser(prefix)
    loop = VLoop(ch, max_steps=getattr(scn, 'max_steps', 200000 if ('NORESULT' in scn.O or (scn.persistent and scn.persistent[1] == 'NORESULT')) else 6000), max_time=getattr(scn, 'max_vtime', 6000.0))
    ENV = env = Env(scn, loop, g)
    env.workers = {w.id: w for s in swarms.values() for w in s.workers}
    run_params = dict(scn.run_params if scn.run_params is not None else scn.params)

    async def main():
        ws = sorted(g.workers.values(), key=lambda x: x.params["name"])
        tasks = [loop.create_task(g.traverse_object_trees(w, run_params), name=w.id) for w in ws]
        await asyncio.gather(*tasks)

    def on_timer(free, when, delay):
        if free is not None:
            return
        task = asyncio.current_task(loop)
        wid = task.get_name() if task is not None else None
        if wid not in env.workers:
            return
        import sys
        f = sys._getframe(1)
        caller = None
        while f is not None:
            if f.f_code.co_name == "sleep" and f.f_back is not None:
                caller = f.f_back.f_code.co_name
                break
            f = f.f_back
        holding = [n.params["name"] for n in g.nodes if n.started_worker is not None and n.started_worker.id == wid] if caller == "traverse_object_trees" else []
        env.ev("sleep", w=wid, delay=round(delay, 4), caller=caller, holding=holding)

    loop.on_timer = on_timer

    x = Execution()
    x.exc = x.exc_type = x.exc_origin = None
    with contextlib.ExitStack() as stack:
        _install_patches(stack)
        asyncio.set_event_loop(loop)
        try:
            loop.run_all(main())
        except ReplayDivergence:
            raise
        except BaseException as e:  # noqa: BLE001
            if isinstance(e, (KeyboardInterrupt, SystemExit)):
                raise
            x.exc = f"{type(e).__name__}: {e}"[:400]
            x.exc_type = type(e).__name__
            x.exc_origin = _origin_of(e)
            if x.exc_origin == "harness":
                # an error raised inside the harness's own stubs/oracles is never a property violation
                raise common.HarnessError(f"exception inside the harness while executing {scn.name}: {x.exc}") from e
        finally:
            asyncio.set_event_loop(None)
    x.choices, x.points, x.trace = ch.choices, ch.points, env.trace
    x.snapshots = env.snapshots
    x.steps, x.vtime = loop.steps, round(loop.time() / P, 3)
    # final facts about the graph
    nodes = []
    for n in g.nodes:
        flat = n.is_flat()
        nodes.append({"name": n.params["name"], "ident": ident_of(n.params["name"]), "flat": flat, "prefix": n.prefix,
                      "setless": n.setless_form, "sets": [list(t) for t in object_states(n, "set")] if not flat else [],
                      "gets": [list(t) for t in object_states(n, "get")] if not flat else [],
                      "incompatible": sorted(n.incompatible_workers),
                      "results": [r.get("status") for r in n.results],
                      "shared_root": n.is_shared_root(), "clone_source": len(n.cloned_nodes) > 0,
                      "object_root": n.params.get("object_root"),
                      "started": n.started_worker.id if n.started_worker else None})
    x.final = {"nodes": nodes, "job_results": [{"name": t["name"].name, "uid": t["name"].uid, "status": t["status"]} for t in job.result.tests],
               "world": env.world.snapshot(), "all_ok": None}
    try:
        x.final["all_ok"] = bool(runner.all_results_ok())
    except Exception as e:  # noqa: BLE001
        x.final["all_ok"] = f"exc {e}"
    loop.shutdown()
    x.graph, x.swarms = (g, swarms) if keep_graph else (None, None)
    return x


# ------------------------------------------------------------------------------------------------
# deviation-bounded exploration
# ------------------------------------------------------------------------------------------------
def deviations(choices):
    return sum(1 for c in choices if c)


class SubtreeResult:
    def __init__(self):
        self.executions = 0
        self.transitions = 0
        self.histories = set()
        self.outcomes = collections.Counter()
        self.violations = []
        self.complete = True
        self.samples = []
        self.max_points = 0
        self.overlap_execs = 0
        self.bounces = 0
        self.errors = []
        self.stats = collections.Counter()
        self.beyond = 0  # choice sequences one deviation beyond the bound (0 = the whole tree was enumerated)


def history_hashes(x: Execution):
    """Hashes of the event history at every choice point (distinct hashes = distinct explored states)."""
    out = []
    h = 0
    for e in x.trace:
        if e["k"] in ("start", "end", "door"):
            h = hash((h, e["k"], e.get("w"), e.get("ident") or e.get("node"), e.get("status"), e.get("dur"), e.get("answer"),
                      e.get("do"), round(e["t"], 2)))
            out.append(h)
    return out


def outcome_signature(x: Execution):
    return tuple((e["w"], e["ident"], e["status"]) for e in x.trace if e["k"] == "end") + ((x.exc_type,) if x.exc else ())


def explore_subtree(args):
    """Explore all executions extending `prefix` with at most k deviations in total (DFS)."""
    scn, monitor, prefix, k, deadline, seed = args
    res = SubtreeResult()
    stack = [list(prefix)]
    rnd = random.Random(seed)
    first = True
    while stack:
        if time.time() > deadline:
            res.complete = False
            break
        pre = stack.pop()
        try:
            x = execute(scn, pre, keep_graph=getattr(scn, "keep_graph", False))
        except ReplayDivergence as e:
            res.errors.append(f"replay divergence at prefix {pre}: {e}")
            continue
        res.executions += 1
        res.transitions += len(x.choices)
        res.max_points = max(res.max_points, len(x.points))
        for h in history_hashes(x):
            res.histories.add(h)
        res.outcomes[outcome_signature(x)] += 1
        stats = trace_stats(x)
        res.stats.update(stats)
        for v in monitor(scn, x):
            v.setdefault("replay", {})
            v["replay"].update({"scenario": scn.describe(), "choices": trim(x.choices), "points": [list(p) for p in x.points[:len(trim(x.choices))]],
                                "trace": compact_trace(x.trace)[:400], "exception": x.exc})
            res.violations.append(v)
        if first and len(res.samples) < 1:
            res.samples.append({"scenario": scn.name, "choices": trim(x.choices), "n_choice_points": len(x.points),
                                "events": compact_trace(x.trace)[:40], "exception": x.exc})
        first = False
        children = []
        for i in range(len(pre), len(x.points)):
            if deviations(x.choices[:i]) + 1 > k:
                break
            for alt in range(1, x.points[i][1]):
                children.append(x.choices[:i] + [alt])
        if seed:
            rnd.shuffle(children)
        stack.extend(reversed(children))
    return res


def trim(choices):
    c = list(choices)
    while c and c[-1] == 0:
        c.pop()
    return c


def compact_trace(trace):
    out = []
    for e in trace:
        if e["k"] == "start":
            out.append(f"t={e['t']} START {e['w']} {e['short']} uid={e['uid']} gets={[g[:3] for g in e['gets']]} locs={e['locs']} missing={e['missing']}")
        elif e["k"] == "end":
            out.append(f"t={e['t']} END   {e['w']} {e['ident'].split('.vm')[0]} {e['status']} dur={e['dur']}")
        elif e["k"] == "door":
            out.append(f"t={e['t']} DOOR  {e['w']} {e['do']} {[i[::2] for i in e['items']]} -> {e.get('answer')} ({(e['ident'] or '').split('.vm')[0]})")
        else:
            out.append(f"t={e['t']} {e['k']} {json.dumps({k: v for k, v in e.items() if k not in ('k', 't')}, default=str)[:200]}")
    return out


def trace_stats(x):
    st = collections.Counter()
    running = 0
    overlapped = False
    for e in x.trace:
        if e["k"] == "start":
            running += 1
            if running > 1:
                overlapped = True
        elif e["k"] == "end":
            running -= 1
    st["executions_with_overlap"] = 1 if overlapped else 0
    st["test_runs"] = sum(1 for e in x.trace if e["k"] == "start")
    st["door_requests"] = sum(1 for e in x.trace if e["k"] == "door")
    st["exceptions"] = 1 if x.exc else 0
    return st


def explore_level(args):
    """Execute every prefix of one deviation level; returns the aggregated result and the prefixes of the next level."""
    scn, monitor, prefixes, want_children, deadline = args
    res = SubtreeResult()
    children = []
    for pre in prefixes:
        if time.time() > deadline:
            res.complete = False
            break
        try:
            x = execute(scn, pre, keep_graph=getattr(scn, "keep_graph", False))
        except ReplayDivergence as e:
            res.errors.append(f"replay divergence at prefix {pre}: {e}")
            continue
        res.executions += 1
        res.transitions += len(x.choices)
        res.max_points = max(res.max_points, len(x.points))
        for h in history_hashes(x):
            res.histories.add(h)
        res.outcomes[outcome_signature(x)] += 1
        res.stats.update(trace_stats(x))
        for v in monitor(scn, x):
            v.setdefault("replay", {})
            v["replay"].update({"scenario": scn.describe(), "choices": trim(x.choices), "points": [list(p) for p in x.points[:len(trim(x.choices))]],
                                "trace": compact_trace(x.trace)[:400], "exception": x.exc})
            res.violations.append(v)
        if not pre:
            res.samples.append({"scenario": scn.name, "choices": trim(x.choices), "n_choice_points": len(x.points),
                                "events": compact_trace(x.trace)[:40], "exception": x.exc})
        # one more deviation, at a choice point after the last one of this prefix: every choice sequence is generated exactly once
        for i in range(len(pre), len(x.points)):
            for alt in range(1, x.points[i][1]):
                if want_children:
                    children.append(x.choices[:i] + [alt])
                else:
                    res.beyond += 1
    return res, children


def explore(scn: Scenario, monitor, k: int, deadline: float, seed: int = 0, procs=None):
    """Iterative deviation bounding: all executions with 0 deviations from the default choices, then 1, then 2, ... up to k.

    `completed_k` is the largest bound whose level was explored completely before the wall-clock deadline (k if the whole tree of
    choice sequences was exhausted earlier: `tree_exhausted`)."""
    build_base(scn)  # parse before forking
    total = SubtreeResult()
    total.completed_k = -1
    total.tree_exhausted = False
    total.level_sizes = []
    level = [[]]
    for depth in range(0, k + 1):
        if not level:
            total.tree_exhausted = True
            total.completed_k = k
            break
        if seed:
            random.Random(seed * 1000 + depth).shuffle(level)
        total.level_sizes.append(len(level))
        nproc = procs or common.ncpu()
        size = max(1, min(40, len(level) // (nproc * 4) or 1))
        jobs = [(scn, monitor, level[i:i + size], depth < k, deadline) for i in range(0, len(level), size)]
        nxt = []
        for r, children in common.pimap_unordered(explore_level, jobs, procs=procs):
            total.executions += r.executions
            total.transitions += r.transitions
            total.histories |= r.histories
            total.outcomes.update(r.outcomes)
            total.violations.extend(r.violations)
            total.complete = total.complete and r.complete
            total.max_points = max(total.max_points, r.max_points)
            total.errors.extend(r.errors)
            total.stats.update(r.stats)
            total.samples.extend(r.samples)
            total.beyond += r.beyond
            nxt.extend(children)
        if not total.complete:
            break
        total.completed_k = depth
        level = nxt
        if depth == k and total.beyond == 0:
            total.tree_exhausted = True
    return total


def determinism_check(scn: Scenario, prefix=()):
    """Run the same schedule twice and require identical observations."""
    a = execute(scn, prefix)
    b = execute(scn, prefix)
    if a.trace != b.trace or a.choices != b.choices or a.exc != b.exc:
        raise common.HarnessError(f"nondeterministic execution of scenario {scn.name} prefix {list(prefix)}")
    return a
