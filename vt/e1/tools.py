"""Running the manual tools (intertest_setup.update, Manu.run chains) on the virtual-time loop with the world model.

The seams are the ones the repository's selftests patch: `intertest_setup.new_job`, `runner.SpawnerDispatcher`,
`TestWorker.start/get_session`, `cartgraph.node.door`, `TestRunner.run_test_task`.
"""
from __future__ import annotations

import asyncio
import contextlib
import unittest.mock as mock

from vt.e1 import engine
from vt.e1.vloop import Chooser, ReplayDivergence, VLoop


class ToolRun:
    __slots__ = ("choices", "points", "trace", "exc", "exc_type", "rc", "world")


def run_tool(scn, fn, prefix=()):
    """Run `fn()` (which internally calls loop.run_until_complete through run_workers) and record everything the world saw."""
    from avocado_i2n import intertest_setup
    from avocado_i2n.cartgraph import TestSwarm
    import avocado_i2n.plugins.runner as runnermod

    ch = Chooser(prefix)
    loop = VLoop(ch, max_steps=20000, max_time=5000.0)
    engine.ENV = env = engine.Env(scn, loop, None)

    class LazyWorkers(dict):
        def get(self, k, default=None):
            if not self:
                self.update({w.id: w for s in TestSwarm.run_swarms.values() for w in s.workers})
            return dict.get(self, k, default)

    env.workers = LazyWorkers()

    @contextlib.contextmanager
    def new_job(config):
        job = mock.MagicMock()
        job.logdir = "."
        job.timeout = None
        job.config = config
        job.result.tests = []
        loader, runner = config["graph"].l, config["graph"].r
        loader.logdir = job.logdir
        runner.job = job
        yield job

    out = ToolRun()
    out.exc = out.exc_type = out.rc = None
    with contextlib.ExitStack() as stack:
        engine._install_patches(stack)
        stack.enter_context(mock.patch.object(intertest_setup, "new_job", new_job))
        stack.enter_context(mock.patch.object(runnermod, "SpawnerDispatcher", mock.MagicMock()))
        asyncio.set_event_loop(loop)
        try:
            out.rc = fn()
        except ReplayDivergence:
            raise
        except BaseException as e:  # noqa: BLE001
            if isinstance(e, (KeyboardInterrupt, SystemExit)):
                raise
            out.exc = f"{type(e).__name__}: {e}"[:400]
            out.exc_type = type(e).__name__
            if engine._origin_of(e) == "harness":
                from vt import common

                raise common.HarnessError(f"exception inside the harness while running a tool: {out.exc}") from e
        finally:
            asyncio.set_event_loop(None)
    out.choices, out.points, out.trace = ch.choices, ch.points, env.trace
    out.world = env.world.snapshot()
    loop.shutdown()
    return out
