"""E3 `procmc` — preemption-bounded exploration of simulated processes around `states.pool.image_lock`.

Each simulated process is a thread that runs the real `TransferOps` code and hands a baton back to the scheduler at every hooked
operation (open/close of the lock file, fcntl.lockf, time.sleep of the retry loop, hash_file, shutil.copy split in two halves,
os.unlink, os.symlink).  `fcntl.lockf` is answered by a small model of POSIX record locks keyed by (simulated pid, inode); the model
is validated against the kernel by `kernel_conformance`.
"""
from __future__ import annotations

import builtins
import errno
import os
import shutil as real_shutil
import threading


class Killed(BaseException):
    """The simulated process died (nothing of it runs any more: hooks have no effect afterwards)."""


class LockModel:
    """POSIX advisory record locks on whole files, as seen by fcntl.lockf(LOCK_EX | LOCK_NB) / LOCK_UN."""

    def __init__(self):
        self.owner = {}  # inode key -> pid

    def lock_nb(self, pid, ino) -> bool:
        o = self.owner.get(ino)
        if o is None or o == pid:
            self.owner[ino] = pid
            return True
        return False

    def unlock(self, pid, ino):
        if self.owner.get(ino) == pid:
            del self.owner[ino]

    def close(self, pid, ino):
        # closing ANY descriptor of the file drops the process's locks on it
        self.unlock(pid, ino)

    def exit(self, pid):
        for k in [k for k, v in self.owner.items() if v == pid]:
            del self.owner[k]

    def holds_any(self, pid) -> bool:
        return pid in self.owner.values()


class Sched:
    """One execution: runs the programs under the schedule `prefix` (defaults: keep running the current process)."""

    def __init__(self, programs, prefix, fault=None, watch_paths=()):
        self.n = len(programs)
        self.programs = programs
        self.sems = [threading.Semaphore(0) for _ in programs]
        self.main = threading.Semaphore(0)
        self.done = [False] * self.n
        self.dead = [False] * self.n
        self.prefix = list(prefix)
        self.choices = []
        self.points = []  # (n_enabled, running_still_enabled)
        self.locks = LockModel()
        self.trace = []  # (pid, kind, detail)
        self.tl = threading.local()
        self.errors = {}
        self.results = {}
        self.fault = fault  # (pid, index of the pid's scheduling point, "crash" | "oserror")
        self.pcount = [0] * self.n
        self.fds = [[] for _ in programs]  # open lock-file wrappers per pid
        self.watch = set(watch_paths)
        self.fault_fired = False

    def pid(self):
        return self.tl.pid

    def ev(self, kind, detail=None):
        self.trace.append((self.pid(), kind, detail))

    def point(self, what, detail=None):
        """Called by a simulated process before a hooked operation: hand the baton to the scheduler, maybe suffer the fault."""
        me = self.pid()
        if self.dead[me]:
            raise Killed()
        idx = self.pcount[me]
        self.pcount[me] += 1
        self.trace.append((me, "at", (what, detail)))
        self.main.release()
        self.sems[me].acquire()
        if self.fault and not self.fault_fired and self.fault[0] == me and self.fault[1] == idx:
            self.fault_fired = True
            if self.fault[2] == "crash":
                self.kill(me)
                raise Killed()
            self.trace.append((me, "fault", ("oserror", what)))
            raise OSError(errno.EIO, f"injected I/O error at {what}")

    def kill(self, pid):
        self.dead[pid] = True
        self.trace.append((pid, "crash", None))
        self.locks.exit(pid)
        for w in self.fds[pid]:
            try:
                w._f.close()
            except Exception:  # noqa: BLE001
                pass
        self.fds[pid] = []

    def run_thread(self, i):
        self.tl.pid = i
        self.sems[i].acquire()
        try:
            self.results[i] = self.programs[i]()
        except Killed:
            pass
        except BaseException as e:  # noqa: BLE001
            self.errors[i] = (type(e).__name__, str(e)[:2000])
        self.done[i] = True
        if not self.dead[i]:
            self.locks.exit(i)  # process exit
        self.main.release()

    def go(self):
        ths = [threading.Thread(target=self.run_thread, args=(i,), daemon=True) for i in range(self.n)]
        for t in ths:
            t.start()
        last = None
        steps = 0
        while not all(self.done):
            steps += 1
            if steps > 5000:
                self.errors["sched"] = ("Horizon", "more than 5000 scheduling steps")
                break
            enabled = [i for i in range(self.n) if not self.done[i]]
            if last in enabled:
                enabled = [last] + [i for i in enabled if i != last]
            k = len(self.choices)
            c = self.prefix[k] if k < len(self.prefix) else 0
            if c >= len(enabled):
                raise RuntimeError("replay divergence")
            self.choices.append(c)
            self.points.append((len(enabled), last in enabled))
            last = enabled[c]
            self.sems[last].release()
            self.main.acquire()
        for t in ths:
            t.join(timeout=2)
        return self


S: Sched = None


class LockFile:
    """Wrapper around the real lock file object so that close() is visible to the lock model."""

    def __init__(self, f, path, pid):
        self._f = f
        self.name = path
        st = os.fstat(f.fileno())
        self.ino = (st.st_dev, st.st_ino)
        self.pid = pid

    def fileno(self):
        return self._f.fileno()

    def __enter__(self):
        return self

    def __exit__(self, *a):
        self.close()
        return False

    def close(self):
        s = S
        if s.dead[self.pid]:
            return
        s.point("close", os.path.basename(self.name))
        s.locks.close(self.pid, self.ino)
        if self in s.fds[self.pid]:
            s.fds[self.pid].remove(self)
        self._f.close()


def hooked_open(path, mode="r", *a, **kw):
    if str(path).endswith(".lock"):
        S.point("open", os.path.basename(path))
        f = builtins.open(path, mode, *a, **kw)
        w = LockFile(f, path, S.pid())
        S.fds[S.pid()].append(w)
        S.ev("opened", w.ino)
        return w
    return builtins.open(path, mode, *a, **kw)


class FakeFcntl:
    LOCK_EX, LOCK_NB, LOCK_UN, LOCK_SH = 2, 4, 8, 1

    @staticmethod
    def lockf(fd, op, *a):
        pid = S.pid()
        if S.dead[pid]:
            raise Killed()
        if op & FakeFcntl.LOCK_UN:
            S.point("unlock")
            S.locks.unlock(pid, fd.ino)
            S.ev("unlocked", fd.ino)
            return
        S.point("lockf")
        if S.locks.lock_nb(pid, fd.ino):
            S.ev("locked", fd.ino)
            return
        S.ev("busy", fd.ino)
        raise BlockingIOError(errno.EAGAIN, "Resource temporarily unavailable")


class FakeTime:
    @staticmethod
    def sleep(s):
        S.point("sleep")

    @staticmethod
    def time():
        return 0.0


def _is_watched(path):
    return os.path.abspath(path) in S.watch


class FakeShutil:
    @staticmethod
    def copy(src, dst):
        S.point("copy-begin", (os.path.basename(src), os.path.basename(dst)))
        data = builtins.open(src, "rb").read()
        for p in (src, dst):
            if _is_watched(p):
                S.ev("data-begin", os.path.abspath(p))
        with builtins.open(dst, "wb") as f:
            f.write(data[: len(data) // 2])
            f.flush()
            try:
                S.point("copy-mid", os.path.basename(dst))
            except BaseException:
                raise
            f.write(data[len(data) // 2:])
        for p in (src, dst):
            if _is_watched(p):
                S.ev("data-end", os.path.abspath(p))
        S.ev("copied", (os.path.abspath(src), os.path.abspath(dst)))
        return dst

    copyfile = copy


class FakeCrypto:
    @staticmethod
    def hash_file(path, size=None, algorithm="md5"):
        import hashlib

        S.point("hash", os.path.basename(path))
        if _is_watched(path):
            S.ev("data-begin", os.path.abspath(path))
            S.ev("data-end", os.path.abspath(path))
        return hashlib.md5(builtins.open(path, "rb").read()).hexdigest()


class OsProxy:
    """os with unlink/symlink turned into scheduling points (everything else is the real module)."""

    def __getattr__(self, name):
        return getattr(os, name)

    @staticmethod
    def unlink(path):
        S.point("unlink", os.path.basename(path))
        if _is_watched(path):
            S.ev("data-begin", os.path.abspath(path))
        try:
            os.unlink(path)
        finally:
            if _is_watched(path):
                S.ev("data-end", os.path.abspath(path))
        S.ev("unlinked", os.path.abspath(path))

    @staticmethod
    def symlink(src, dst):
        S.point("symlink", os.path.basename(dst))
        os.symlink(src, dst)
        S.ev("linked", (os.path.abspath(src), os.path.abspath(dst)))


def install(stack, pool):
    import unittest.mock as mock

    stack.enter_context(mock.patch.object(pool, "fcntl", FakeFcntl))
    stack.enter_context(mock.patch.object(pool, "time", FakeTime))
    stack.enter_context(mock.patch.object(pool, "shutil", FakeShutil))
    stack.enter_context(mock.patch.object(pool, "crypto", FakeCrypto))
    stack.enter_context(mock.patch.object(pool, "os", OsProxy()))
    stack.enter_context(mock.patch.object(pool, "open", hooked_open, create=True))


def run_schedule(make_programs, tmpdir, prefix, fault=None):
    """Build fresh programs in tmpdir and run them under the schedule; returns the finished Sched."""
    global S
    progs, watch = make_programs(tmpdir)
    S = Sched(progs, prefix, fault, watch)
    S.go()
    return S


def explore(make_programs, bound, workbase, check, fault=None, max_execs=None, start=None, children_only=False):
    """Preemption-bounded DFS.  `check(sched, tmpdir)` returns a list of violation strings for one execution.
    `start`: explore only the subtree below this prefix; `children_only`: run the start prefix once and return its child prefixes."""
    stack = [list(start or [])]
    n = 0
    out = []
    finals = set()
    seq = 0
    while stack:
        if max_execs is not None and n >= max_execs:
            return n, out, finals, False
        prefix = stack.pop()
        seq += 1
        tmp = os.path.join(workbase, f"x{seq}")
        os.makedirs(tmp, exist_ok=True)
        try:
            s = run_schedule(make_programs, tmp, prefix, fault)
            n += 1
            for v in check(s, tmp):
                out.append((v, list(s.choices), fault))
            finals.add(summarize(s))
            pre = 0
            kids = []
            for i in range(len(s.points)):
                nen, running_enabled = s.points[i]
                if i >= len(prefix):
                    for alt in range(1, nen):
                        cost = pre + (1 if running_enabled else 0)
                        if cost <= bound:
                            kids.append(s.choices[:i] + [alt])
                if s.choices[i] != 0 and running_enabled:
                    pre += 1
            if children_only:
                return n, out, finals, kids
            stack.extend(kids)
        finally:
            real_shutil.rmtree(tmp, ignore_errors=True)
    return n, out, finals, True


def summarize(s):
    return (tuple(sorted((str(k), v[0]) for k, v in s.errors.items())), tuple(s.dead))


# ---------------------------------------------------------------------------------------------------------
# binding the lock model to the kernel
# ---------------------------------------------------------------------------------------------------------
def _child(conn, path):
    import fcntl

    fds = []
    while True:
        cmd = conn.recv()
        try:
            if cmd == "open":
                fds.append(builtins.open(path, "wb"))
                conn.send("ok")
            elif cmd == "lock":
                if not fds:
                    conn.send("nofd")
                    continue
                try:
                    fcntl.lockf(fds[-1], fcntl.LOCK_EX | fcntl.LOCK_NB)
                    conn.send("locked")
                except OSError as e:
                    conn.send("busy" if e.errno in (errno.EAGAIN, errno.EACCES) else f"err{e.errno}")
            elif cmd == "unlock":
                if not fds:
                    conn.send("nofd")
                    continue
                fcntl.lockf(fds[-1], fcntl.LOCK_UN)
                conn.send("ok")
            elif cmd == "close":
                if not fds:
                    conn.send("nofd")
                    continue
                fds.pop().close()
                conn.send("ok")
            elif cmd == "reset":
                while fds:
                    fds.pop().close()
                conn.send("ok")
            elif cmd == "quit":
                conn.send("bye")
                return
        except Exception as e:  # noqa: BLE001
            conn.send(f"exc {type(e).__name__}")


def kernel_conformance(workdir, depth):
    """Replay every operation sequence up to `depth` over two processes on a real file with the real fcntl.lockf and
    compare each answer with the lock model.  Returns (sequences, operations, mismatches)."""
    import itertools
    import multiprocessing as mp

    path = os.path.join(workdir, "conformance.lock")
    ctx = mp.get_context("fork")
    procs = []
    for _ in range(2):
        a, b = ctx.Pipe()
        p = ctx.Process(target=_child, args=(b, path), daemon=True)
        p.start()
        procs.append((p, a))
    alphabet = [(pid, op) for pid in (0, 1) for op in ("open", "lock", "unlock", "close")] + [(None, "unlink")]
    seqs = ops = 0
    mismatches = []
    try:
        for L in range(1, depth + 1):
            for seq in itertools.product(alphabet, repeat=L):
                # cheap pruning of sequences that start with operations on no descriptor
                if seq[0][1] in ("lock", "unlock", "close"):
                    continue
                seqs += 1
                for _, conn in procs:
                    conn.send("reset")
                    conn.recv()
                if os.path.exists(path):
                    os.unlink(path)
                model = LockModel()
                mfds = {0: [], 1: []}
                next_ino, current = 0, None  # the inode currently bound to the path (None: the path does not exist)
                for pid, op in seq:
                    ops += 1
                    if op == "unlink":
                        if os.path.exists(path):
                            os.unlink(path)
                        current = None  # the inode lives on for the descriptors that still refer to it
                        continue
                    conn = procs[pid][1]
                    conn.send(op)
                    real = conn.recv()
                    if op == "open":
                        if current is None:
                            next_ino += 1
                            current = next_ino
                        mfds[pid].append(current)
                        exp = "ok"
                    elif not mfds[pid]:
                        exp = "nofd"
                    elif op == "lock":
                        exp = "locked" if model.lock_nb(pid, mfds[pid][-1]) else "busy"
                    elif op == "unlock":
                        model.unlock(pid, mfds[pid][-1])
                        exp = "ok"
                    else:
                        ino = mfds[pid].pop()
                        model.close(pid, ino)
                        exp = "ok"
                    if real != exp:
                        mismatches.append((seq, (pid, op), real, exp))
                        break
    finally:
        for p, conn in procs:
            try:
                conn.send("quit")
                conn.recv()
            except Exception:  # noqa: BLE001
                pass
            p.join(timeout=2)
    return seqs, ops, mismatches


