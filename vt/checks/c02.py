"""C02 — traversal terminates and every selected test gets a definite result (E1)."""
from vt.e1 import checkbase, monitors, scenarios as S

TECH = "stateless deviation-bounded exploration of the real traversal (virtual-time scheduler) with termination/deadlock/coverage oracle"
O5 = ("PASS", "FAIL", "ERROR", "WARN", "SKIP")
O6 = O5 + ("NORESULT",)


def plan(tier):
    q = tier == "quick"
    p = []
    p.append((S.T1(O=O5), 1 if q else 2, 1))
    p.append((S.T2(O=O5), 1 if q else 2, 3))
    p.append((S.T2("net1 net2 net3", O=S.PF), 1 if q else 2, 2))
    p.append((S.T3(O=O5), 1 if q else 2, 2))
    p.append((S.T13(O=S.PF), 1 if q else 2, 2))
    p.append((S.T2(lazy=True, O=S.PF).variant("/lazy"), 1 if q else 2, 3))
    p.append((S.T3(lazy=True, O=S.PF).variant("/lazy"), 1, 2))
    # result never reported
    p.append((S.T1(O=("PASS", "NORESULT"), D=(1.0,)).variant("/noresult"), 1 if q else 2, 1))
    p.append((S.T1("net1", shared=S.VM1_CHAIN, O=("PASS", "NORESULT"), D=(1.0,)).variant("/leaf-only,noresult"), 1, 0.5))
    p.append((S.T1("net1", shared=S.VM1_CHAIN, persistent=(r"tutorial1", "NORESULT"), D=(1.0,)).variant("/leaf-only,result never reported"), 0, 0.5))
    p.append((S.T2("net1 net2", shared=S.VM1_CHAIN[:2], persistent=(r"on_customize", "NORESULT"), D=(1.0,)).variant("/setup result never reported"), 0, 0.5))
    p.append((S.T1("net1 net2", shared=S.VM1_CHAIN, params={"max_tries": 2}, O=("PASS", "NORESULT"), D=(1.0,)).variant("/leaf-only,noresult,mt=2"), 1, 0.5))
    # retries
    for mt in (2, 3):
        p.append((S.T2(params={"max_tries": mt}, O=S.PF).variant(f"/max_tries={mt}"), 1 if q else 2, 2))
    p.append((S.T2("cluster1.net6 cluster2.net6", params={"pool_scope": "own swarm shared", "max_tries": 2}, own={"cluster2.net6": S.VM1_CHAIN}).variant("/clusters,scope=own+swarm+shared,mt=2,own(c2.net6)=chain"), 1, 1))
    # narrowed reuse scopes (every lxc worker / every swarm / every cluster keeps its own setup), with and without retries and shared setup
    for scope in ("own shared", "own", "own swarm shared", "own cluster shared", "shared", "swarm shared"):
        tag = scope.replace(" ", "+")
        p.append((S.T2(params={"pool_scope": scope}, O=S.PF).variant(f"/scope={tag}"), 1 if q else 2, 1))
        p.append((S.T1(params={"pool_scope": scope}, shared=S.VM1_CHAIN[:1], O=S.PF).variant(f"/scope={tag},shared=install"), 1 if q else 2, 0.5))
        if not q or scope in ("own shared", "own"):
            p.append((S.T2(params={"pool_scope": scope, "max_tries": 2}, O=S.PF).variant(f"/scope={tag},mt=2"), 0 if q else 1, 0.5))
    p.append((S.T2("cluster1.net6 cluster1.net7 cluster2.net6", params={"pool_scope": "own shared"}, O=S.PF).variant("/clusters,scope=own+shared"), 0 if q else 1, 1))
    # tests overrunning their timeout (test_timeout=1 => 10 back-off periods; durations of 15 and 25 periods): the waiting worker's documented
    # recovery (re-entering an occupied test) must not derail the traversal, whatever the retry settings
    for mt, mct in ((None, None), (None, 1), (2, None), (2, 1), (2, 2), (3, 1)):
        pr = {"test_timeout": 1}
        if mt:
            pr["max_tries"] = mt
        if mct:
            pr["max_concurrent_tries"] = mct
        p.append((S.T1(shared=S.VM1_CHAIN, params=pr, D=(1.0, 15.0, 25.0), O=S.PF).variant(f"/overrun,leaf-only,mt={mt},mct={mct}"), 1 if q else 2, 0.5))
        if not q or mct:
            p.append((S.T1(shared=S.VM1_CHAIN[:2], params=pr, D=(1.0, 15.0), O=S.PF).variant(f"/overrun,setup+leaf,mt={mt},mct={mct}"), 1 if q else 2, 0.5))
    # persistent failure of one test or of the creation step
    for pat, tag in ((r"\.customize\.", "customize"), (r"\.on_customize\.", "on_customize"), (r"unattended_install", "install"),
                     (r"stateless\.noop", "creation-pre-step"), (r"tutorial1", "tutorial1")):
        for mt in ((1, 2) if (not q or tag in ("creation-pre-step", "install", "customize")) else (1,)):
            for st in ("FAIL", "ERROR"):
                if q and st == "ERROR" and tag not in ("install",):
                    continue
                pr = {"max_tries": mt} if mt > 1 else {}
                p.append((S.T2(params=pr, persistent=(pat, st), O=S.PF).variant(f"/persistent {st} of {tag},mt={mt}"), 0 if q else 1, 0.5))
    # restricted workers: tests incompatible with some workers
    p.append((S.T2("net1 net3 net5", vm_strs={"vm1": "", "vm2": "only Win10\n", "vm3": "only Ubuntu\n"}).variant("/restricted,vm1=any"), 0 if q else 1, 2))
    # initial pools
    p.append((S.T2(shared=S.VM1_CHAIN, O=S.PF).variant("/shared=chain"), 1 if q else 2, 1))
    p.append((S.T2(own={"net2": S.VM1_CHAIN[:2]}, O=S.PF).variant("/own(net2)=install+customize"), 1, 1))
    # dry run
    p.append((S.T2(params={"dry_run": "yes"}).variant("/dry_run"), 1, 0.5))
    # a dry run under every other setting that makes the traversal touch states or retry: nothing is executed, no state is changed
    for tag, pr, kw in (("pool_filter=copy", {"pool_filter": "copy"}, {}), ("pool_filter=block", {"pool_filter": "block"}, {}), ("mt=2", {"max_tries": 2}, {}),
                        ("scope=own+shared", {"pool_scope": "own shared"}, {}), ("shared=chain,pool_filter=copy", {"pool_filter": "copy"}, {"shared": S.VM1_CHAIN}),
                        ("lazy,pool_filter=copy", {"pool_filter": "copy"}, {"lazy": True}), ("replay", {"replay": "job1"}, {})):
        p.append((S.T2(params=dict(pr, dry_run="yes"), **kw).variant(f"/dry_run,{tag}"), 0 if q else 1, 0.3))
    p.append((S.G1(params={"dry_run": "yes", "pool_filter": "copy"}).variant("/dry_run,pool_filter=copy"), 0, 0.3))
    p.append((S.T1("net0", O=O5).variant("/serial"), 1 if q else 2, 0.5))
    p.append((S.G1(O=S.PF), 0 if q else 1, 3))
    p.append((S.G2(O=S.PF), 0 if q else 1, 3))
    # COMPLETE enumeration (no deviation bound): every duration / outcome / tie-order sequence of small graphs
    p.append((S.T1(shared=S.VM1_CHAIN[:2]).variant("/shared=install+customize,ALL-SCHEDULES"), 99, 0.5))
    p.append((S.T1("net1 net2 net3", shared=S.VM1_CHAIN[:2]).variant("/shared=install+customize,ALL-SCHEDULES"), 99, 0.5))
    p.append((S.T1(shared=S.VM1_CHAIN[:1]).variant("/shared=install,ALL-SCHEDULES"), 99, 1))
    p.append((S.T2(shared=S.VM1_CHAIN[:2]).variant("/shared=install+customize,ALL-SCHEDULES"), 99, 1))
    if not q:
        p.append((S.T2(shared=S.VM1_CHAIN[:1]).variant("/shared=install,ALL-SCHEDULES"), 99, 4))
    # realistic long budgets (stock test_timeout=3600 s => back-off 3.6 s) with tests running for thousands of seconds within the budget
    scn_ = S.T1(shared=S.VM1_CHAIN[:2], params={"test_timeout": 3600}, D=(1.0, 20000.0, 30000.0), O=S.PF).variant("/timeout=3600s,D<=3000s")
    scn_.max_steps, scn_.max_vtime = 400000, 100000.0
    p.append((scn_, 1 if q else 2, 1))
    # every pair of run settings (dry run x pool filter, retries x timeouts, scopes x slots, ...) on a setup + leaf selection; durations include an
    # overrun of the small timeout and a long run within the large one
    p += S.settings_pairs(lambda **kw: S.T1(shared=S.VM1_CHAIN[:2], D=(1.0, 15.0), O=S.PF, **kw), tier)
    # configuration matrix: worker kinds x reuse scopes x slot bindings (same selection, default schedule and single deviations)
    p += S.config_matrix(lambda nets, **kw: S.T2(nets, O=S.PF, **kw), tier)
    return p


def run(tier, seed):
    return checkbase.run_e1("C02", tier, seed, TECH, (lambda: plan(tier)), monitors.c02, 420, 2400,
                            "executions = complete runs of the real traversal, one per choice sequence (durations, outcomes incl. result-never-reported, "
                            "tie order) with at most k non-default choices, plus persistent-failure and retry settings; distinct = distinct (scenario, "
                            "(worker,test,status) sequence); horizon = 6000 loop steps / 3000 virtual seconds (a normal run needs < 300 steps)",
                            ["a test is modelled by the world (duration, outcome, state effects); state control answered by the pool model",
                             "non-termination is reported when an execution exceeds the horizon; deadlock when nothing is runnable and no timer is armed"])


def replay(path):
    return checkbase.replay_e1(path, monitors.c02)
