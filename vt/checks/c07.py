"""C07 — graph dependencies are exactly those declared in the configuration (E4, independent resolver)."""
from vt.e4 import driver


def run(tier, seed):
    return driver.run_parse_check("C07", tier, seed, "exhaustive enumeration of parser inputs, dependencies compared with an independent resolver over the flat Cartesian variants",
                                  "inputs as for C06; for every composite node and object the declared `get` restriction is resolved with an own implementation of the Cartesian "
                                  "operators over the flat variants of the set `all` (filtered by the producers' own vm restrictions) and compared with the attached setup nodes, "
                                  "clones and their parents; distinct = distinct (input, graph size)",
                                  ["trusted: virttest's Cartesian parser and parse_flat_nodes for the universe of variants",
                                   "generated suites with random DAGs are not built: the shipped suite's declarations are the ground truth"])


def replay(path):
    print(open(path).read())
    return 0
