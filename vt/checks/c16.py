"""C16 — name lookups and visit counters are exact (E2).

Part 1: every set of parser-shaped names up to a bound, every insertion order, every query over the alphabet, through the real
PrefixTree (get / __contains__) and TestGraph.get_nodes_by_name, against a naive contiguous-subsequence scan.
Part 2: breadth-first search over register sequences on the real nodes of a parsed two-worker graph (drop_parent/drop_child,
pick_parent/pick_child) against a dict-of-counters model; bridged nodes must observe identical counters.
"""
from __future__ import annotations

import collections
import copy
import itertools
import json

from vt import common

SETS = ["S", "T"]
INNER = ["a", "b", "c", "d"]


class N:
    def __init__(self, name):
        self.params = {"name": name}


def naive(nameset, q):
    qs = q.split(".")
    out = []
    for n in nameset:
        vs = n.split(".")
        if any(vs[i:i + len(qs)] == qs for i in range(len(vs) - len(qs) + 1)):
            out.append(n)
    return sorted(out)


def name_pool(inner, maxlen):
    names = []
    for s in SETS:
        for L in range(1, maxlen + 1):
            for p in itertools.permutations(inner, L):
                names.append(".".join((s,) + p))
    return names


def check_combo(args):
    combos, queries = args
    from avocado_i2n.cartgraph import PrefixTree, TestGraph

    lookups = 0
    bad = []
    nontrivial = 0
    singles = [q for q in queries if "." not in q]

    def compare(t, g, inserted, qs, history):
        nonlocal lookups, nontrivial
        for q in qs:
            lookups += 1
            got_list = [x.params["name"] for x in t.get(q)]
            exp = naive(inserted, q)
            cont = q in t
            byname = sorted(x.params["name"] for x in g.get_nodes_by_name(q))
            if exp:
                nontrivial += 1
            if sorted(got_list) != exp or cont != bool(exp) or byname != exp or len(got_list) != len(set(got_list)):
                if len(bad) < 5:
                    bad.append({"inserted": list(inserted), "query": q, "get": got_list, "contains": cont, "get_nodes_by_name": byname, "expected": exp,
                                "history": history})

    for combo in combos:
        for order in itertools.permutations(combo):
            # histories with lookups interleaved between the insertions: (B) every query before every insertion, (C) one membership test or
            # one lookup of a single variant at one position; a lookup must never change what later insertions and lookups do
            t, g = PrefixTree(), TestGraph()
            for i, n in enumerate(order):
                compare(t, g, order[:i], queries, f"all queries before insertion {i}")
                node = N(n)
                t.insert(node)
                g.nodes_index.insert(node)
            compare(t, g, order, queries, "all queries before every insertion")
            if len(order) <= 2:
                for pos in range(len(order)):
                    for probe in singles:
                        for kind in ("in", "get"):
                            t, g = PrefixTree(), TestGraph()
                            for i, n in enumerate(order):
                                if i == pos:
                                    (probe in t) if kind == "in" else t.get(probe)
                                    (probe in g.nodes_index) if kind == "in" else g.get_nodes_by_name(probe)
                                node = N(n)
                                t.insert(node)
                                g.nodes_index.insert(node)
                            compare(t, g, order, [q for q in queries if q.count(".") <= 1], f"{kind} {probe!r} before insertion {pos}")
            t = PrefixTree()
            g = TestGraph()
            for n in order:
                node = N(n)
                t.insert(node)
                g.nodes_index.insert(node)
            for q in queries:
                lookups += 1
                got_list = [x.params["name"] for x in t.get(q)]
                got = sorted(got_list)
                exp = naive(combo, q)
                cont = q in t
                byname = sorted(x.params["name"] for x in g.get_nodes_by_name(q))
                if exp:
                    nontrivial += 1
                if got != exp or cont != bool(exp) or byname != exp or len(got_list) != len(set(got_list)):
                    if len(bad) < 5:
                        bad.append({"inserted": list(order), "query": q, "get": got_list, "contains": cont, "get_nodes_by_name": byname, "expected": exp})
    return lookups, nontrivial, bad


REGS = ("_picked_by_setup_nodes", "_dropped_setup_nodes", "_picked_by_cleanup_nodes", "_dropped_cleanup_nodes")
_ORIG = {}


def watched_bridge(self, test_node):
    """TestNode.bridge_with_node with a before/after reading of the visit totals both tests can report."""
    from vt.e1 import engine

    before = {(n.params["name"], a): getattr(n, a).get_counters() for n in (self, test_node) for a in REGS}
    r = _ORIG["bridge"](self, test_node)
    env = engine.ENV
    if env is not None:
        for n in (self, test_node):
            for a in REGS:
                after = getattr(n, a).get_counters()
                if after < before[(n.params["name"], a)]:
                    env.ev("counter-loss", node=n.params["name"], register=a, before=before[(n.params["name"], a)], after=after)
    return r


def c16dyn(scn_, x):
    out = []
    if x.exc:
        out.append({"what": f"lazy traversal failed: {x.exc}", "signature": {"part": "lazy-counters", "what": "exception"}})
    for e in x.trace:
        if e["k"] == "counter-loss":
            out.append({"what": f"linking equivalent tests lost visits: {e['register']} of {e['node'][:90]} reported {e['before']} visits before and {e['after']} after",
                        "signature": {"part": "lazy-counters", "what": "visits lost on linking", "register": e["register"]}})
    return out


def run(tier: str, seed: int) -> int:
    common.bootstrap("mini")
    rep = common.Report("C16", tier, seed, "bounded exhaustive input/sequence enumeration on the real PrefixTree and EdgeRegister vs naive scan / counter model")
    rep.rule = ("part 1: cells = (set of <=N parser-shaped names: set variant first, no variant repeated) x (insertion order) x (dotted query of <=3 variants over the alphabet); "
                "non-trivial = lookups whose expected result is non-empty; part 2: states = distinct register contents reached by BFS over drop/pick operations on real bridged nodes")
    q = tier == "quick"
    # ---- part 1 -------------------------------------------------------------------------------
    inner = INNER[:3] if q else INNER
    names_small = name_pool(INNER[:3], 3)  # 30 names
    names_big = name_pool(inner, 3)
    alpha = SETS + inner
    queries = [".".join(p) for L in (1, 2, 3) for p in itertools.permutations(alpha, L)]
    queries += ["a.a", "S.S", "x", "S.x", "a.x.b"]
    combos = []
    for k in (1, 2):
        combos += list(itertools.combinations(names_big, k))
    if q:
        pool3 = [n for n in names_small if n.count(".") <= 2]  # names with <=2 inner variants: 18 names
        combos += list(itertools.combinations(pool3, 3))
    else:
        combos += list(itertools.combinations(names_small, 3))
        pool4 = [n for n in names_small if n.count(".") <= 2][:12]
        combos += list(itertools.combinations(pool4, 4))
    chunks = [combos[i::64] for i in range(64)]
    total_lookups = total_nontrivial = 0
    for lookups, nontrivial, bad in common.pimap_unordered(check_combo, [(c, queries) for c in chunks if c]):
        total_lookups += lookups
        total_nontrivial += nontrivial
        for b in bad:
            rep.violation(f"lookup {b['query']!r} on names inserted as {b['inserted']}: get={b['get']} contains={b['contains']} "
                          f"get_nodes_by_name={b['get_nodes_by_name']} expected={b['expected']}", b,
                          {"part": "prefix-tree", "kind": "get" if sorted(b["get"]) != b["expected"] else ("contains" if b["contains"] != bool(b["expected"]) else "other")})
    rep.sections["prefix_tree"] = {"name_sets": len(combos), "queries": len(queries), "lookups": total_lookups, "nontrivial_lookups": total_nontrivial}
    rep.sample({"inserted": ["S.a.b", "T.b.a", "S.b"], "query": "b.a", "expected": naive(["S.a.b", "T.b.a", "S.b"], "b.a")})
    rep.evaluations += total_lookups
    rep.transitions += total_lookups
    rep.states += len(combos)
    for c in combos[:2000]:
        rep.distinct.add(("names", c))
    rep.extra["distinct_note"] = "distinct_nontrivial counts name sets (capped at 2000) plus distinct register states; lookups are counted in sections"

    # ---- part 2 -------------------------------------------------------------------------------
    from vt.e1 import engine, scenarios as S

    scn = S.T1("net1 net2")
    base_graph, base_swarms, _ = engine.build_base(scn)

    def pick(g, frag, net):
        c = [n for n in g.nodes if frag in n.params["name"] and n.params["name"].endswith(net) and not n.is_flat()]
        assert len(c) == 1, (frag, net, c)
        return c[0]

    def fresh():
        g, swarms = copy.deepcopy((base_graph, base_swarms))
        from avocado_i2n.cartgraph import TestSwarm

        TestSwarm.run_swarms = swarms
        A = {w: pick(g, ".automated.customize.", w) for w in ("net1", "net2")}
        B = {w: pick(g, ".automated.on_customize.", w) for w in ("net1", "net2")}
        C = {w: pick(g, ".tutorial1.", w) for w in ("net1", "net2")}
        ws = {w.id: w for s in swarms.values() for w in s.workers}
        return g, A, B, C, ws

    OPS = []
    for copy_w in ("net1", "net2"):
        for w in ("net1", "net2"):
            OPS.append(("drop_parent", copy_w, w))  # B[copy].drop_parent(A[copy], worker w)
            OPS.append(("drop_child", copy_w, w))   # A[copy].drop_child(B[copy], worker w)
    OPS.append(("pick_child", "net1", "net1"))      # A[net1].pick_child(net1) -> registers a pick on B's picked_by_setup register
    OPS.append(("pick_parent", "net2", "net2"))     # B[net2].pick_parent(net2) -> registers a pick on A's picked_by_cleanup register
    OPS.append(("drop_parent_leaf", "net1", "net2"))  # C[net1].drop_parent(B[net1], net2): another class of registers

    def apply(ctx, op, model):
        g, A, B, C, ws = ctx
        kind, cw, w = op
        if kind == "drop_parent":
            B[cw].drop_parent(A[cw], ws[w])
            model[("B", "dropped_setup")][("A", w)] += 1
        elif kind == "drop_child":
            A[cw].drop_child(B[cw], ws[w])
            model[("A", "dropped_cleanup")][("B", w)] += 1
        elif kind == "pick_child":
            if model[("A", "dropped_cleanup")][("B", w)] > 0:
                return  # not enabled: the only child was already dropped for this worker (picking raises by contract)
            got = A[cw].pick_child(ws[w])
            assert got is B[cw], "pick_child returned an unexpected node"
            model[("B", "picked_by_setup")][("A", w)] += 1
        elif kind == "pick_parent":
            if model[("B", "dropped_setup")][("A", w)] > 0:
                return  # not enabled
            got = B[cw].pick_parent(ws[w])
            assert got is A[cw], "pick_parent returned an unexpected node"
            model[("A", "picked_by_cleanup")][("B", w)] += 1
        elif kind == "drop_parent_leaf":
            C[cw].drop_parent(B[cw], ws[w])
            model[("C", "dropped_setup")][("B", w)] += 1

    REGS = {"dropped_setup": "_dropped_setup_nodes", "dropped_cleanup": "_dropped_cleanup_nodes",
            "picked_by_setup": "_picked_by_setup_nodes", "picked_by_cleanup": "_picked_by_cleanup_nodes"}

    def compare(ctx, model, hist):
        g, A, B, C, ws = ctx
        classes = {"A": A, "B": B, "C": C}
        for cname, copies in classes.items():
            for regname, attr in REGS.items():
                m = model[(cname, regname)]
                for copy_w, node in copies.items():
                    reg = getattr(node, attr)
                    for other_name, other in classes.items():
                        for arg_w, arg in other.items():
                            for w in ("net1", "net2", None):
                                exp = sum(v for (oc, ww), v in m.items() if oc == other_name and (w is None or ww == w))
                                got = reg.get_counters(arg, ws[w] if w else None)
                                if got != exp:
                                    return f"{cname}[{copy_w}].{regname}.get_counters({other_name}[{arg_w}], {w}) = {got}, model {exp}"
                            expw = {ww for (oc, ww), v in m.items() if oc == other_name and v}
                            if set(reg.get_workers(arg)) != expw:
                                return f"{cname}[{copy_w}].{regname}.get_workers({other_name}[{arg_w}]) = {sorted(reg.get_workers(arg))}, model {sorted(expw)}"
                    exp_all = sum(m.values())
                    if reg.get_counters() != exp_all:
                        return f"{cname}[{copy_w}].{regname}.get_counters() = {reg.get_counters()}, model {exp_all}"
                    if set(reg.get_workers()) != {ww for (_, ww), v in m.items() if v}:
                        return f"{cname}[{copy_w}].{regname}.get_workers() = {sorted(reg.get_workers())}"
        # readiness derived from the counters must agree for bridged copies as seen by one worker
        return None

    depth = 3 if q else 5
    seen = {}
    frontier = collections.deque([()])
    seen[()] = True
    transitions = 0
    sample_hist = None
    while frontier:
        hist = frontier.popleft()
        if len(hist) >= depth:
            continue
        for op in OPS:
            new_hist = hist + (op,)
            ctx = fresh()
            model = collections.defaultdict(collections.Counter)
            err = None
            try:
                for o in new_hist:
                    apply(ctx, o, model)
                err = compare(ctx, model, new_hist)
            except Exception as e:  # noqa: BLE001
                err = f"{type(e).__name__}: {e}"
            transitions += 1
            if err:
                rep.violation(f"after {list(new_hist)}: {err}", {"ops": [list(o) for o in new_hist]}, {"part": "edge-register", "what": err.split("(")[0][:60]})
            key = json.dumps(sorted((list(k), sorted((list(a), b) for a, b in v.items())) for k, v in model.items()))
            if key not in seen:
                seen[key] = True
                frontier.append(new_hist)
                sample_hist = new_hist
    rep.sections["edge_register"] = {"states": len(seen), "transitions": transitions, "depth": depth, "operations": [list(o) for o in OPS]}
    rep.states += len(seen)
    rep.transitions += transitions
    rep.evaluations += transitions
    for k in seen:
        rep.distinct.add(("reg", k))
    rep.sample({"register_ops": [list(o) for o in (sample_hist or ())]})
    # ---- part 3: counters while the graph grows on demand ------------------------------------------------------------------------
    # equivalent tests are linked (and start sharing their four registers) whenever another worker unrolls the same test during a
    # traversal; linking must never lose a visit that either of the two tests could report before
    import time as _time
    from avocado_i2n.cartgraph import node as nodemod

    orig_bridge = nodemod.TestNode.bridge_with_node
    _ORIG["bridge"] = orig_bridge
    nodemod.TestNode.bridge_with_node = watched_bridge
    try:
        dyn_rows = []
        for scn_, kk in ((S.G2(D=(1.0, 3.0)), 1), (S.G1(D=(1.0, 3.0)), 1), (S.T2(lazy=True, D=(1.0, 3.0)), 1),
                         (engine.Scenario("G3finale:net1+net2/lazy", "leaves..tutorial_finale", "net1 net2", lazy=True, D=(1.0, 3.0)), 0 if q else 1)):
            res = engine.explore(scn_, c16dyn, kk, _time.time() + (150 if q else 900), seed)
            rep.transitions += res.transitions
            rep.evaluations += res.executions
            rep.states += len(res.histories)
            seen_sig = set()
            for v in res.violations:
                kx = json.dumps(v["signature"], sort_keys=True)
                if kx not in seen_sig:
                    seen_sig.add(kx)
                    rep.violation(f"[{scn_.name}] {v['what']}", v["replay"], dict(v["signature"], scenario=scn_.name.split(":")[0]))
            dyn_rows.append({"scenario": scn_.name, "k": kk, "executions": res.executions, "complete": res.complete})
            if not res.complete:
                rep.exhaustive = False
        rep.sections["lazy_counters"] = dyn_rows
    finally:
        nodemod.TestNode.bridge_with_node = orig_bridge
    rep.traces_validated = rep.transitions
    rep.bounds = {"names_per_set": 3 if q else 4, "inner_variants": inner, "query_length": 3, "register_depth": depth}
    rep.assumptions = ["names are parser-shaped: set variant first, no variant repeated within a name (as the statement restricts)",
                       "register operations are driven through the real nodes of a parsed two-worker graph (normal..tutorial1, net1+net2)"]
    return rep.finish()


def replay(path: str) -> int:
    print(open(path).read())
    return 0
