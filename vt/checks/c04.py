"""C04 — a test is never executed by two workers of one scope at the same time (E1)."""
from vt.e1 import checkbase, monitors, scenarios as S

TECH = "stateless deviation-bounded exploration of the real traversal (virtual-time scheduler) with interval-overlap and back-off oracle"
DL = (1.0, 0.5, 3.0, 5.0)


def plan(tier):
    q = tier == "quick"
    p = []
    p.append((S.T1(D=DL), 2 if q else 3, 1))
    p.append((S.T1("net1 net2 net3", D=DL), 1 if q else 2, 1))
    p.append((S.T1("net1 net2 net3 net4", D=DL), 1, 1))
    p.append((S.T2(D=DL), 2 if q else 3, 3))
    p.append((S.T2("net1 net2 net3", D=DL), 1 if q else 2, 2))
    p.append((S.T3(D=DL), 1 if q else 2, 2))
    p.append((S.T13(D=DL), 1 if q else 2, 2))
    p.append((S.T2(params={"max_tries": 3, "max_concurrent_tries": 1}, D=DL).variant("/mt=3,mct=1"), 1 if q else 2, 1))
    p.append((S.T2("net1 net2 net3", params={"max_tries": 3, "max_concurrent_tries": 2}, D=DL).variant("/mt=3,mct=2"), 1 if q else 2, 1))
    p.append((S.T2("net1 net2 net3", params={"max_tries": 2}, D=DL).variant("/mt=2"), 1 if q else 2, 1))
    # every (max_tries, max_concurrent_tries) combination incl. an explicit 0, three workers converging on a short chain
    for mt in (1, 2, 3):
        for mct in (0, 1, 2, 3):
            p.append((S.T1("net1 net2 net3", shared=S.VM1_CHAIN[:2], params={"max_tries": mt, "max_concurrent_tries": mct}, D=(1.0, 3.0)).variant(f"/3workers,mt={mt},mct={mct}"),
                      1 if q else 2, 0.4))
    p.append((S.T2(params={"pool_scope": "own shared"}, D=DL).variant("/scope=own+shared"), 1 if q else 2, 1))
    p.append((S.T2("cluster1.net6 cluster1.net7 cluster2.net6", D=DL).variant("/clusters"), 1 if q else 2, 2))
    p.append((S.T2("cluster1.net6 cluster1.net7 cluster2.net6", params={"pool_scope": "own swarm shared"}, D=DL).variant("/clusters,scope=own+swarm+shared"), 1 if q else 2, 2))
    p.append((S.T2(shared=S.VM1_CHAIN[:2], D=DL).variant("/shared=install+customize"), 2 if q else 3, 1))
    # long durations close to a small timeout budget: test_timeout=1 => back-off 0.1s, budget 1s = 10 periods; every duration stays below it
    p.append((S.T1(params={"test_timeout": 1}, D=(1.0, 9.0, 6.0)).variant("/timeout=10p,D<=9p"), 2 if q else 3, 2))
    p.append((S.T2(params={"test_timeout": 1}, D=(1.0, 9.0, 6.0)).variant("/timeout=10p,D<=9p"), 2, 2))
    p.append((S.G1(D=DL), 0 if q else 1, 3))
    # legitimate retries that keep a test occupied for longer than one timeout but less than timeout x max_tries (each try within its timeout)
    for mt, dur in [(m, d) for m in (2, 3, 4) for d in (4.0, 6.0, 8.0, 9.0)]:
        p.append((S.T1(shared=S.VM1_CHAIN[:1], params={"test_timeout": 1, "max_tries": mt, "max_concurrent_tries": 1, "stop_status": "pass"},
                       persistent=(r"\.customize\.", "FAIL"), D=(dur, 1.0)).variant(f"/timeout=10p,mt={mt},mct=1,customize FAILs {dur}p each"), 0 if q else 1, 0.3))
        if (mt, dur) in ((3, 8.0), (2, 6.0)):
            p.append((S.T2(shared=S.VM1_CHAIN[:2], params={"test_timeout": 1, "max_tries": mt, "max_concurrent_tries": 1},
                           persistent=(r"\.on_customize\.", "FAIL"), D=(dur, 1.0)).variant(f"/timeout=10p,mt={mt},mct=1,on_customize FAILs {dur}p each"), 1, 0.5))
    # COMPLETE enumeration (no deviation bound): every duration / outcome / tie-order sequence of small graphs
    p.append((S.T1(shared=S.VM1_CHAIN[:2]).variant("/shared=install+customize,ALL-SCHEDULES"), 99, 0.5))
    p.append((S.T1("net1 net2 net3", shared=S.VM1_CHAIN[:2]).variant("/shared=install+customize,ALL-SCHEDULES"), 99, 0.5))
    p.append((S.T1(shared=S.VM1_CHAIN[:1]).variant("/shared=install,ALL-SCHEDULES"), 99, 1))
    p.append((S.T2(shared=S.VM1_CHAIN[:2]).variant("/shared=install+customize,ALL-SCHEDULES"), 99, 1))
    if not q:
        p.append((S.T2(shared=S.VM1_CHAIN[:1]).variant("/shared=install,ALL-SCHEDULES"), 99, 4))
    # realistic long budgets (the stock test_timeout of 3600 s => back-off 3.6 s): tests legitimately running for 2000-3000 s while another
    # worker of the scope has nothing else to do; waiting must be accounted as the time really waited
    for scn_, kk in ((S.T1(shared=S.VM1_CHAIN[:2], params={"test_timeout": 3600}, D=(1.0, 20000.0, 30000.0)).variant("/timeout=3600s,D<=3000s"), 1 if q else 2),
                     (S.T1(shared=S.VM1_CHAIN[:2], params={"test_timeout": 14400}, D=(1.0, 60000.0)).variant("/timeout=14400s,D<=6000s"), 1),
                     (S.T1(shared=S.VM1_CHAIN[:2], params={"test_timeout": 3600, "max_tries": 2, "max_concurrent_tries": 1}, D=(1.0, 40000.0)).variant("/timeout=3600s,mt=2,mct=1,D<=4000s"), 1)):
        scn_.max_steps, scn_.max_vtime = 400000, 100000.0
        p.append((scn_, kk, 1))
    # every pair of run settings on a setup + leaf selection
    p += S.settings_pairs(lambda **kw: S.T1(shared=S.VM1_CHAIN[:2], D=(1.0, 5.0, 15.0), **kw), tier)
    # configuration matrix: worker kinds x reuse scopes x slot bindings (same selection, default schedule and single deviations)
    p += S.config_matrix(lambda nets, **kw: S.T2(nets, D=DL, **kw), tier)
    p += [(scn.variant(",mt=2,mct=2"), k, w) for scn, k, w in S.config_matrix(lambda nets, **kw: S.T1(nets, D=DL, **kw), tier, k_quick=0, k_thorough=1,
                                                                              extra_params={"max_tries": 2, "max_concurrent_tries": 2})]
    return p


def run(tier, seed):
    return checkbase.run_e1("C04", tier, seed, TECH, (lambda: plan(tier)), monitors.c04, 600, 2400,
                            "executions = complete runs of the real traversal, one per choice sequence (durations incl. 3 and 5 back-off periods, outcomes, "
                            "tie order) with at most k non-default choices; distinct = distinct (scenario, (worker,test,status) sequence)",
                            ["a test is modelled by the world; durations stay within the timeout budget (the over-run branch is explored separately in thorough)",
                             "virtual time: only the order of events is observable to the code"])


def replay(path):
    return checkbase.replay_e1(path, monitors.c04)
