"""C17 — a vm state exists exactly when all of the vm's images have it.

Bounded exhaustive enumeration (E2, depth 1) of image/state assignments through the real
`QCOW2VTBackend.show`, `RamfileBackend._show`, and of snapshot listings through the on/off regexes
(`QCOW2Backend.show` / `QCOW2VTBackend.show` with one image).  Oracle: plain set intersection.
"""
from __future__ import annotations

import itertools
import json
import unittest.mock as mock

from vt import common

NAMES = ["s1", "s2", "s3"]
SIZES_THOROUGH = ["0 B", "1 B", "512 KiB", "1.5 GiB", "1e+03 MiB", "1.02e+03 MiB", "999 MiB", "10 B", "100 KiB"]
SIZES_QUICK = ["0 B", "1 B", "1.5 GiB", "1e+03 MiB", "1.02e+03 MiB", "10 B"]
TAGS = ["launch", "launch_2-0", "launch3.0", "a.b-c_d", "0", "b0"]


def size_to_str(val):
    """Port of qemu's util/cutils.c:size_to_str (what `qemu-img snapshot -l` prints in the VM SIZE column)."""
    import math

    suffixes = ["", "Ki", "Mi", "Gi", "Ti", "Pi", "Ei"]
    _, i = math.frexp(val / (1000.0 / 1024))
    i = int((i - 1) / 10)  # C integer division truncates toward zero
    div = 1 << (i * 10)
    return "%0.3g %sB" % (val / div, suffixes[i])


def qemu_sizes(tier):
    """Renderings of vm-state sizes over a systematic range of byte counts: every unit, both sides of every rounding / unit switch."""
    mantissas = [1, 1.5, 2, 9.99, 10, 12.3, 99.9, 100, 123, 512, 999, 999.4, 999.5, 1000, 1001, 1010, 1023, 1023.9]
    if tier == "quick":
        mantissas = [1, 1.5, 9.99, 10, 100, 512, 999, 999.5, 1000, 1010, 1023]
    vals = {0}
    for e in range(0, 5):
        for m in mantissas:
            vals.add(int(m * 1024 ** e))
    out = []
    for v in sorted(vals):
        sz = size_to_str(v)
        if sz not in out:
            out.append(sz)
    return out


def listing(entries, header=True):
    """qemu-img snapshot -l output for [(tag, vm_size)] (format of qemu's bdrv_snapshot_dump)."""
    out = "Snapshot list:\nID        TAG               VM SIZE                DATE     VM CLOCK     ICOUNT\n" if header else ""
    for i, (tag, size) in enumerate(entries):
        out += "%-10s%-17s%7s%20s%13s%11s\n" % (str(i + 1), tag, size, "2024-01-02 03:04:05", "00:00:01.500", "--")
    return out


def ordered_subsets(names):
    for r in range(len(names) + 1):
        for combo in itertools.combinations(names, r):
            yield from itertools.permutations(combo)


def run(tier: str, seed: int) -> int:
    common.bootstrap("mini")
    from virttest.utils_params import Params
    from avocado_i2n.states import qcow2, ramfile

    rep = common.Report("C17", tier, seed, "bounded exhaustive input enumeration on the real backends vs set-intersection model")
    rep.rule = ("cells = (number of images 1..3) x (ordered listing of a subset of {s1,s2,s3} per image) x (order of the images)"
                " [x memory-file subset for ramfile]; plus listings over tag x vm-size alphabets for the on/off regexes;"
                " distinct = distinct (input, expected) pairs whose expected result is non-empty or whose inputs differ between images")
    max_images = 3
    subsets = list(ordered_subsets(NAMES)) if tier == "thorough" else [c for r in range(4) for c in itertools.combinations(NAMES, r)] + [("s2", "s1"), ("s3", "s1", "s2")]
    cells = 0

    # ---------------- QCOW2VT: intersection over images ----------------
    per_image = {}

    class QI:
        def __init__(self, params, root, tag):
            self.tag = tag

        def snapshot_list(self, force_share=True):
            return listing([(s, "1 GiB") for s in per_image[self.tag]])

    def check_vt(assign, order):
        nonlocal cells
        cells += 1
        per_image.clear()
        per_image.update(assign)
        p = Params({"vms": "vm1", "images": " ".join(order), "images_base_dir": "/x", "image_format": "qcow2"})
        expected = set(NAMES)
        for im in order:
            expected &= set(assign[im])
        inp = {"backend": "qcow2vt", "images": list(order), "states": {k: list(v) for k, v in assign.items()}}
        try:
            got = qcow2.QCOW2VTBackend.show(p, None)
        except Exception as e:  # noqa: BLE001
            rep.violation(f"QCOW2VTBackend.show raised {type(e).__name__}: {e} (expected {sorted(expected)})", inp,
                          {"backend": "qcow2vt", "kind": "exception", "exc": type(e).__name__, "n_images": len(order)})
            return
        rep.transitions += 1
        if set(got) != expected or len(list(got)) != len(set(got)):
            rep.violation(f"QCOW2VTBackend.show returned {sorted(got)} expected {sorted(expected)}", inp,
                          {"backend": "qcow2vt", "kind": "wrong", "n_images": len(order),
                           "first_empty": len(assign[order[0]]) == 0})
        if len({tuple(sorted(v)) for v in assign.values()}) > 1 or expected:
            rep.distinct.add(("vt", json.dumps(inp, sort_keys=True)))
        rep.sample({"call": "QCOW2VTBackend.show", **inp, "expected": sorted(expected), "got": sorted(got)})

    with mock.patch.object(qcow2, "QemuImg", QI):
        for n in range(1, max_images + 1):
            imgs = [f"image{i + 1}" for i in range(n)]
            for combo in itertools.product(subsets, repeat=n):
                assign = dict(zip(imgs, combo))
                orders = itertools.permutations(imgs) if (tier == "thorough" or n < 3) else [tuple(imgs), tuple(reversed(imgs))]
                for order in orders:
                    check_vt(assign, order)
    rep.sections["qcow2vt_cells"] = cells

    # ---------------- ramfile: memory file and all images ----------------
    c0 = cells

    class ImgBackend:
        store = {}

        @classmethod
        def show(cls, params, object=None):
            return list(cls.store[params["images"]])

    # realistic state names as well: the memory-file name is "<state>.state", names ending in letters of that suffix must survive the mapping
    REAL = ["customize", "connect", "launcha"]
    mem_subsets = [c for r in range(4) for c in itertools.combinations(NAMES, r)]
    img_subsets = subsets if tier == "thorough" else [c for r in range(4) for c in itertools.combinations(NAMES, r)]
    old_backend = ramfile.RamfileBackend.image_state_backend
    ramfile.RamfileBackend.image_state_backend = ImgBackend
    try:
        for n in range(1, max_images + 1):
            imgs = [f"image{i + 1}" for i in range(n)]
            if n == 3 and tier == "quick":
                combos = [c for c in itertools.product(img_subsets, repeat=n) if len(set(c)) > 1 or len(c[0]) in (0, 3)]
            else:
                combos = itertools.product(img_subsets, repeat=n)
            for combo in combos:
                assign = dict(zip(imgs, combo))
                for mem in mem_subsets:
                    for order in ([tuple(imgs)] if n == 1 else [tuple(imgs), tuple(reversed(imgs))]):
                        cells += 1
                        ImgBackend.store = assign
                        files = [m + ".state" for m in mem] + ["image1", "notes.txt", "s1.qcow2"]
                        mock_os = mock.MagicMock()
                        mock_os.listdir.return_value = files
                        mock_os.stat.return_value.st_size = 4096
                        import os as real_os

                        mock_os.path.join = real_os.path.join
                        p = Params({"vms": "vm1", "images": " ".join(order), "swarm_pool": "/pool", "object_id": "vm1-x",
                                    "object_type": "vms"})
                        expected = set(mem)
                        for im in order:
                            expected &= set(assign[im])
                        inp = {"backend": "ramfile", "images": list(order), "states": {k: list(v) for k, v in assign.items()},
                               "memory_files": list(mem)}
                        try:
                            with mock.patch.object(ramfile, "os", mock_os):
                                got = ramfile.RamfileBackend._show(p, None)
                        except Exception as e:  # noqa: BLE001
                            rep.violation(f"RamfileBackend._show raised {type(e).__name__}: {e} (expected {sorted(expected)})", inp,
                                          {"backend": "ramfile", "kind": "exception", "exc": type(e).__name__, "n_images": len(order)})
                            continue
                        rep.transitions += 1
                        if set(got) != expected or len(list(got)) != len(set(got)):
                            rep.violation(f"RamfileBackend._show returned {sorted(got)} expected {sorted(expected)}", inp,
                                          {"backend": "ramfile", "kind": "wrong", "n_images": len(order),
                                           "first_empty": len(assign[order[0]]) == 0})
                        if len({tuple(sorted(v)) for v in assign.values()} | {tuple(sorted(mem))}) > 1:
                            rep.distinct.add(("ram", json.dumps(inp, sort_keys=True)))
                        if cells - c0 in (7, 200):
                            rep.sample({"call": "RamfileBackend._show", **inp, "expected": sorted(expected), "got": sorted(got)}, limit=8)
        # the same product over realistic names (1-2 images; the memory files may also carry a near-miss name)
        real_sub = [c for r in range(3) for c in itertools.combinations(REAL, r)]
        for n in (1, 2):
            imgs = [f"image{i + 1}" for i in range(n)]
            for combo in itertools.product(real_sub, repeat=n):
                assign = dict(zip(imgs, combo))
                for mem in real_sub + [("launch",), ("customiz",)]:
                    cells += 1
                    ImgBackend.store = assign
                    mock_os = mock.MagicMock()
                    mock_os.listdir.return_value = [m + ".state" for m in mem] + ["image1", "x.states", "state"]
                    mock_os.stat.return_value.st_size = 4096
                    import os as real_os

                    mock_os.path.join = real_os.path.join
                    p = Params({"vms": "vm1", "images": " ".join(imgs), "swarm_pool": "/pool", "object_id": "vm1-x", "object_type": "vms"})
                    expected = set(mem)
                    for im in imgs:
                        expected &= set(assign[im])
                    inp = {"backend": "ramfile", "images": imgs, "states": {k: list(v) for k, v in assign.items()}, "memory_files": list(mem)}
                    try:
                        with mock.patch.object(ramfile, "os", mock_os):
                            got = ramfile.RamfileBackend._show(p, None)
                    except Exception as e:  # noqa: BLE001
                        rep.violation(f"RamfileBackend._show raised {type(e).__name__}: {e} (expected {sorted(expected)})", inp,
                                      {"backend": "ramfile", "kind": "exception", "exc": type(e).__name__, "names": "real"})
                        continue
                    rep.transitions += 1
                    if set(got) != expected:
                        rep.violation(f"RamfileBackend._show returned {sorted(got)} expected {sorted(expected)} (memory files {list(mem)})", inp,
                                      {"backend": "ramfile", "kind": "wrong", "names": "real"})
                    rep.distinct.add(("ram-real", json.dumps(inp, sort_keys=True)))
    finally:
        ramfile.RamfileBackend.image_state_backend = old_backend
    rep.sections["ramfile_cells"] = cells - c0

    # ---------------- on/off discrimination by vm-state size ----------------
    c1 = cells
    sizes = SIZES_THOROUGH if tier == "thorough" else SIZES_QUICK
    entries_alphabet = [(t, s) for t in TAGS for s in sizes]
    current = []

    class QI2:
        def __init__(self, params, root, tag):
            pass

        def snapshot_list(self, force_share=True):
            return listing(current)

    rendered = qemu_sizes(tier)
    rep.sections["rendered_sizes"] = len(rendered)

    def listings():
        # every rendered size alone and in both positions next to every other one (two fixed tags)
        for sz in rendered:
            for t in TAGS[:3]:
                yield [(t, sz)]
        for a, b in itertools.product(rendered, repeat=2):
            yield [("launch", a), ("b0", b)]
        # every single entry, every ordered pair with distinct tags, and (thorough) triples with distinct tags
        for e in entries_alphabet:
            yield [e]
        for a, b in itertools.permutations(entries_alphabet, 2):
            if a[0] != b[0]:
                yield [a, b]
        if tier == "thorough":
            small = [(t, s) for t in TAGS[:3] for s in sizes[:5]]
            for tr in itertools.permutations(small, 3):
                if len({x[0] for x in tr}) == 3:
                    yield list(tr)

    with mock.patch.object(qcow2, "QemuImg", QI2):
        p = Params({"vms": "vm1", "images": "image1", "images_base_dir": "/x", "image_format": "qcow2"})
        for lst in listings():
            cells += 1
            current[:] = lst
            exp_off = [t for t, s in lst if s == "0 B"]
            exp_on = [t for t, s in lst if s != "0 B"]
            inp = {"backend": "qcow2 on/off", "listing": listing(lst, header=False)}
            try:
                got_off = list(qcow2.QCOW2Backend.show(p, None))
                got_on = list(qcow2.QCOW2VTBackend.show(p, None))
            except Exception as e:  # noqa: BLE001
                rep.violation(f"show raised {type(e).__name__}: {e} on a qemu-img listing", inp, {"backend": "onoff", "kind": "exception"})
                continue
            rep.transitions += 2
            if sorted(got_off) != sorted(exp_off):
                rep.violation(f"off (image) states {got_off} expected {exp_off}", inp,
                              {"backend": "onoff", "kind": "off", "sizes": sorted({s for _, s in lst})})
            if sorted(got_on) != sorted(exp_on):
                bad = sorted({s for t, s in lst if (t in exp_on) != (t in got_on)})
                rep.violation(f"on (vm) states {got_on} expected {exp_on}; sizes misread: {bad}", inp,
                              {"backend": "onoff", "kind": "on", "bad_sizes": bad})
            rep.distinct.add(("onoff", tuple(lst)))
            if cells - c1 in (3, 90):
                rep.sample({"call": "QCOW2Backend.show/QCOW2VTBackend.show", "listing": listing(lst, header=False),
                            "expected_off": exp_off, "expected_on": exp_on, "got_off": got_off, "got_on": got_on}, limit=10)
    rep.sections["onoff_cells"] = cells - c1

    rep.states = cells
    rep.evaluations = cells
    rep.traces_validated = rep.transitions
    rep.bounds = {"images": "1..3", "state_names": NAMES, "listing_orders": "all" if tier == "thorough" else "sorted + 2 permuted",
                  "sizes": sizes, "tags": TAGS}
    rep.assumptions = ["QemuImg / os are substituted exactly as the repository's selftests do",
                       "snapshot listings follow qemu's bdrv_snapshot_dump column format with tags shorter than the column"]
    return rep.finish()


def replay(path: str) -> int:
    with open(path) as f:
        data = json.load(f)
    print(json.dumps(data, indent=1))
    print("Re-run `python -m vt.run C17` — the replay input above is a single cell of the enumeration.")
    return 0
