"""C13 — pool access respects the enabled scopes and prefers the closest source (E2, exhaustive cell enumeration)."""
from __future__ import annotations

import itertools
import json

from vt import common

SWARM = "/pools/swarm"
SHARED = "/pools/shared"
ALL_SCOPES = ["own", "swarm", "cluster", "shared"]

# workers a source may live on: id -> (gateway, host)
WORKERS = {"net2": ("", "c2"), "cl1a": ("gw1", "1"), "cl1b": ("gw1", "2"), "cl2a": ("gw2", "1")}
# who is asking: (gateway, host)
OWNERS = {"lxc-c1": ("", "c1"), "remote-gw2-1": ("gw2", "1")}


def ref_scope(owner, src):
    """Reference classification written from the statement: own / swarm (same gateway, other host) / cluster (other gateway) / shared."""
    w, path = src.split(":")
    gw, host = WORKERS[w] if w else owner
    if gw != owner[0]:
        return "cluster"
    if host != owner[1]:
        return "swarm"
    if path == SHARED:
        return "shared"
    if path == SWARM:
        return "own"
    return "shared"


def ref_rank(owner, src):
    """Closeness: same gateway before other gateways, same host before other hosts, the own cache path before other paths."""
    w, path = src.split(":")
    gw, host = WORKERS[w] if w else owner
    return (0 if gw == owner[0] else 1, 0 if host == owner[1] else 1, 0 if path == SWARM else 1)


def make_classes(pool):
    class T:
        log = []
        content = {}
        valid = True
        root_in_pool = False

        @classmethod
        def show(cls, params, object=None):
            cls.log.append(("show", params["show_location"]))
            return sorted(cls.content.get(params["show_location"], set()))

        @classmethod
        def get(cls, params, object=None):
            cls.log.append(("get", params["get_location"]))

        @classmethod
        def set(cls, params, object=None):
            cls.log.append(("set", params["set_location"]))

        @classmethod
        def unset(cls, params, object=None):
            cls.log.append(("unset", params["unset_location"]))

        @classmethod
        def compare_chain(cls, state, cache, pool_dir, params):
            cls.log.append(("compare", pool_dir))
            return cls.valid

        # root transport
        @classmethod
        def check_root(cls, params, object=None):
            cls.log.append(("check_root", "pool"))
            return cls.root_in_pool

        @classmethod
        def get_root(cls, params, object=None):
            cls.log.append(("get_root", "pool"))

        @classmethod
        def set_root(cls, params, object=None):
            cls.log.append(("set_root", "pool"))

        @classmethod
        def unset_root(cls, params, object=None):
            cls.log.append(("unset_root", "pool"))

        class ops:
            @staticmethod
            def compare(cache_path, pool_path, params):
                T.log.append(("compare_root", pool_path))
                return T.valid

    class B(pool.SourcedStateBackend):
        transport = T
        local = set()
        llog = []

        @classmethod
        def _show(cls, params, object=None):
            cls.llog.append("show")
            return sorted(cls.local)

        @classmethod
        def _get(cls, params, object=None):
            cls.llog.append("get")

        @classmethod
        def _set(cls, params, object=None):
            cls.llog.append("set")

        @classmethod
        def _unset(cls, params, object=None):
            cls.llog.append("unset")

    class R(pool.RootSourcedStateBackend):
        transport = T
        local_root = False
        llog = []

        @classmethod
        def _check_root(cls, params, object=None):
            cls.llog.append("check_root")
            return cls.local_root

        @classmethod
        def _get_root(cls, params, object=None):
            cls.llog.append("get_root")

        @classmethod
        def _set_root(cls, params, object=None):
            cls.llog.append("set_root")

        @classmethod
        def _unset_root(cls, params, object=None):
            cls.llog.append("unset_root")

    return T, B, R


def base_params(owner, scopes, sources, do):
    from virttest.utils_params import Params

    p = Params({"nets_gateway": owner[0], "nets_host": owner[1], "swarm_pool": SWARM, "shared_pool": SHARED, "pool_scope": " ".join(scopes),
                f"{do}_location": " ".join(sources), f"{do}_state": "s", "object_type": "nets/vms/images", "vms": "vm1", "images": "image1",
                "image_name": "image", "vms_base_dir": "/vms"})
    for w, (gw, host) in WORKERS.items():
        p[f"nets_gateway_{w}"] = gw
        p[f"nets_host_{w}"] = host
    return p


def run(tier: str, seed: int) -> int:
    common.bootstrap("mini")
    from avocado_i2n.states import pool

    T, B, R = make_classes(pool)
    rep = common.Report("C13", tier, seed, "exhaustive cell enumeration on the real SourcedStateBackend / RootSourcedStateBackend with a recording transport vs reference scope and proximity functions")
    rep.rule = ("cells = owner (lxc worker / remote cluster worker) x subset of pool_scope x ordered source list (length <= L) from {shared path, own path, other path on own host, "
                "same-gateway other host, other gateway, other gateway with the owner's host name} x placement of the state among sources and cache x cache validity x operation; "
                "distinct = distinct (owner, scopes, sources, placement, validity) inputs")
    q = tier == "quick"
    all_sources = [":" + SHARED, ":" + SWARM, ":/pools/other", "net2:" + SWARM, "cl1a:" + SWARM, "cl1b:" + SWARM, "cl2a:" + SWARM]
    maxlen = 3 if q else 4
    cells = 0
    for oname, owner in OWNERS.items():
        srcs = all_sources if not q else [s for s in all_sources if s != "cl1b:" + SWARM]
        for r in range(0, 5):
            for scopes in itertools.combinations(ALL_SCOPES, r):
                for k in range(1, maxlen + 1):
                    for sources in itertools.permutations(srcs, k):
                        if k == maxlen and not q and sources[0] > sources[-1]:
                            continue  # thorough: half of the longest orders (each unordered set still appears in >= 12 orders)
                        if k == 3 and q and sum(1 for s in sources if s.split(":")[0]) == 0:
                            continue
                        order = sorted(sources, key=lambda s: ref_rank(owner, s))
                        permitted = [s for s in order if ref_scope(owner, s) != "own" and ref_scope(owner, s) in scopes]
                        placements = itertools.product([False, True], repeat=k + 1) if k <= 2 else [tuple(int(b) for b in format(i, f"0{k + 1}b")) for i in range(0, 2 ** (k + 1), 1 if not q else 3)]
                        for placement in placements:
                            for valid in (True, False):
                                cells += 1
                                T.content = {s: ({"s"} if placement[i] else set()) for i, s in enumerate(sources)}
                                B.local = {"s"} if placement[-1] else set()
                                T.valid = valid
                                inp = {"owner": oname, "scopes": list(scopes), "sources": list(sources), "state_at": [s for i, s in enumerate(sources) if placement[i]],
                                       "in_cache": bool(placement[-1]), "cache_valid": valid}
                                rep.distinct.add((oname, scopes, sources, tuple(placement), valid))
                                # ---- get
                                T.log, B.llog = [], []
                                B.get(base_params(owner, scopes, sources, "get"))
                                rep.transitions += 1
                                contacted = {l[1] for l in T.log}
                                problems = []
                                if not contacted <= set(permitted[:1]):
                                    problems.append(("get-contacts", f"get contacted {sorted(contacted)}, closest permitted source is {permitted[:1]}"))
                                if permitted:
                                    first = permitted[0]
                                    should_dl = ("s" in T.content[first]) and (not placement[-1] or not valid)
                                    if (("get", first) in T.log) != should_dl:
                                        problems.append(("get-download", f"download from {first}: {('get', first) in T.log}, expected {should_dl}"))
                                    if ("show", first) not in T.log:
                                        problems.append(("get-closest", f"closest permitted source {first} was not consulted (log {T.log})"))
                                if ("get" in B.llog) != ("own" in scopes):
                                    problems.append(("get-local", f"local get performed={('get' in B.llog)} with scopes {scopes}"))
                                # ---- set / unset
                                for do in ("set", "unset"):
                                    T.log, B.llog = [], []
                                    exc = None
                                    try:
                                        getattr(B, do)(base_params(owner, scopes, sources, do))
                                    except RuntimeError:
                                        exc = "RuntimeError"
                                    rep.transitions += 1
                                    reached = sorted(l[1] for l in T.log if l[0] == do)
                                    if do == "set" and "own" not in scopes and not placement[-1]:
                                        if exc != "RuntimeError" or reached:
                                            problems.append(("set-refuse", f"updating pools without the local state: exc={exc} reached={reached}"))
                                    else:
                                        if exc is not None:
                                            problems.append((do + "-exc", f"{do} raised {exc}"))
                                        if reached != sorted(permitted):
                                            problems.append((do + "-mirrors", f"{do} reached {reached}, permitted mirrors {sorted(permitted)}"))
                                        if (do in B.llog) != ("own" in scopes):
                                            problems.append((do + "-local", f"local {do} performed={do in B.llog} with scopes {scopes}"))
                                # ---- show
                                T.log, B.llog = [], []
                                got = set(B.show(base_params(owner, scopes, sources, "show")))
                                rep.transitions += 1
                                loc = B.local if "own" in scopes else set()
                                pools = [T.content[s] for s in permitted]
                                upper = loc | (set.union(*pools) if pools else set())
                                contacted = {l[1] for l in T.log}
                                if not contacted <= set(permitted):
                                    problems.append(("show-contacts", f"show contacted {sorted(contacted - set(permitted))} outside the enabled scopes"))
                                if not (loc <= got <= upper):
                                    problems.append(("show-result", f"show returned {sorted(got)}; cache {sorted(loc)}, permitted sources hold {sorted(upper)}"))
                                for kind, text in problems:
                                    rep.violation(f"{oname} scopes={list(scopes)} sources={list(sources)}: {text}", inp, {"part": "states", "kind": kind})
                                if cells in (11, 5000):
                                    rep.sample(dict(inp, permitted_in_order=permitted))
    rep.sections["state_cells"] = cells

    # ---------------- roots ----------------------------------------------------------------------
    rc = 0
    for scope in ("own", "shared", "own shared", "swarm", "own swarm cluster shared", "swarm cluster shared", "cluster"):
        for local_root, pool_root, valid, otype in itertools.product((True, False), (True, False), (True, False), ("nets/vms/images", "nets/vms")):
            from virttest.utils_params import Params

            def P():
                return Params({"pool_scope": scope, "object_type": otype, "vms": "vm1", "images": "image1", "image_name": "image",
                               "vms_base_dir": "/vms", "shared_pool": SHARED, "swarm_pool": SWARM, "nets_gateway": "", "nets_host": "c1"})

            R.local_root, T.root_in_pool, T.valid = local_root, pool_root, valid
            inp = {"pool_scope": scope, "local_root": local_root, "pool_root": pool_root, "cache_valid": valid, "object_type": otype}
            problems = []
            # check_root
            T.log, R.llog = [], []
            got = R.check_root(P())
            rc += 1
            exp = local_root if scope == "own" else (local_root or (pool_root and otype not in ("vms", "nets/vms")))
            if bool(got) != bool(exp):
                problems.append(("check_root", f"check_root={got}, expected {exp}"))
            if scope == "own" and T.log:
                problems.append(("check_root-contacts", f"pool contacted with pool_scope=own: {T.log}"))
            # get_root
            T.log, R.llog = [], []
            R.get_root(P())
            rc += 1
            dl = ("get_root", "pool") in T.log
            if scope == "own":
                if T.log:
                    problems.append(("get_root-contacts", f"pool contacted with pool_scope=own: {T.log}"))
            elif "own" not in scope.split():
                if not dl or R.llog:
                    problems.append(("get_root-noown", f"without the own scope the root must come from the pool only: pool log {T.log}, local log {R.llog}"))
            else:
                exp_dl = pool_root and (not local_root or not valid)
                if dl != exp_dl:
                    problems.append(("get_root-download", f"root downloaded={dl}, expected {exp_dl} (local {local_root}, pool {pool_root}, valid {valid})"))
            # set_root / unset_root
            for do in ("set_root", "unset_root"):
                T.log, R.llog = [], []
                exc = None
                try:
                    getattr(R, do)(P())
                except RuntimeError:
                    exc = "RuntimeError"
                rc += 1
                pool_done = (do, "pool") in T.log
                local_done = do in R.llog
                if scope == "own":
                    if exc or pool_done or not local_done:
                        problems.append((do + "-own", f"{do} with scope own: exc={exc} pool={pool_done} local={local_done}"))
                elif scope == "shared":
                    if do == "set_root" and not local_root:
                        if exc != "RuntimeError" or pool_done:
                            problems.append(("set_root-refuse", f"updating the pool without a local root: exc={exc} pool={pool_done}"))
                    elif exc or not pool_done or local_done:
                        problems.append((do + "-shared", f"{do} with scope shared: exc={exc} pool={pool_done} local={local_done}"))
                else:
                    if exc != "RuntimeError" or pool_done or local_done:
                        problems.append((do + "-invalid", f"{do} with scope {scope!r} must be refused: exc={exc} pool={pool_done} local={local_done}"))
            for kind, text in problems:
                rep.violation(f"roots pool_scope={scope!r} local={local_root} pool={pool_root} valid={valid} {otype}: {text}", inp, {"part": "roots", "kind": kind})
            rep.distinct.add(("root", scope, local_root, pool_root, valid, otype))
    rep.transitions += rc
    rep.sections["root_cells"] = rc

    # ---------------- the real chain comparison / transfer over a backing-chain table ----------------
    import unittest.mock as mock
    from virttest.utils_params import Params

    cc = 0
    chains = {"s3": "s2", "s2": "s1", "s1": ""}
    for top, images, otype in itertools.product(("s1", "s2", "s3"), (("image1",), ("image1", "image2")), ("nets/vms/images", "nets/vms")):
        chain = []
        st = top
        while st:
            chain.append(st)
            st = chains[st]
        files = []
        for i, st in enumerate(chain):
            for im in images:
                files.append(f"vm1-id/{im}/{st}.qcow2")
            if i == 0 and otype == "nets/vms":
                files.append(f"vm1-id/{st}.state")
        for differing in [()] + [(f,) for f in files] + ([tuple(files[:2])] if len(files) > 1 else []):
            cc += 1
            log = []

            class Ops:
                @staticmethod
                def compare(cache_path, pool_path, params):
                    rel = cache_path.split("/cache/")[1]
                    log.append(("compare", rel, pool_path))
                    return rel not in differing

                @staticmethod
                def download(cache_path, pool_path, params):
                    log.append(("download", cache_path.split("/cache/")[1], pool_path))

                @staticmethod
                def upload(cache_path, pool_path, params):
                    log.append(("upload", cache_path.split("/cache/")[1], pool_path))

            p = Params({"object_id": "vm1-id", "images": " ".join(images), "object_type": otype, "vms": "vm1", "swarm_pool": "/cache"})
            with mock.patch.object(pool.QCOW2ImageTransfer, "ops", Ops), \
                    mock.patch.object(pool.QCOW2ImageTransfer, "get_dependency", classmethod(lambda cls, state, params: chains[state])):
                same = pool.QCOW2ImageTransfer.compare_chain(top, "/cache", "/pool", p)
                compared = [l[1] for l in log]
                del log[:]
                pool.QCOW2ImageTransfer.transfer_chain(top, "/cache", "/pool", p, down=True)
                downloaded = [l[1] for l in log if l[0] == "download"]
                pool_paths = {l[2] for l in log}
                del log[:]
                pool.QCOW2ImageTransfer.transfer_chain(top, "/cache", "/pool", p, down=False)
                uploaded = [l[1] for l in log if l[0] == "upload"]
            rep.transitions += 3
            inp = {"top": top, "images": list(images), "object_type": otype, "differing": list(differing)}
            if same != (len(differing) == 0):
                rep.violation(f"chain of {top} {otype} images={images} with differing files {differing}: compare_chain={same}", inp, {"part": "chain", "kind": "compare"})
            if differing and not set(compared) >= set(differing[:1]):
                rep.violation(f"chain comparison never looked at the differing file {differing[0]} (compared {compared})", inp, {"part": "chain", "kind": "compare-coverage"})
            if sorted(downloaded) != sorted(files) or sorted(uploaded) != sorted(files):
                rep.violation(f"chain transfer of {top} {otype} images={images}: downloaded {downloaded}, uploaded {uploaded}, the backing chain consists of {files}", inp, {"part": "chain", "kind": "transfer"})
            if any(not pp.startswith("/pool/vm1-id/") for pp in pool_paths):
                rep.violation(f"chain transfer used pool paths outside the pool location: {sorted(pool_paths)[:3]}", inp, {"part": "chain", "kind": "paths"})
            rep.distinct.add(("chain", top, images, otype, differing))
    rep.sections["chain_cells"] = cc
    cells += cc
    rep.states = cells + rc
    rep.evaluations = rep.transitions
    rep.traces_validated = rep.transitions
    rep.bounds = {"source_list_length": maxlen, "owners": list(OWNERS), "sources": all_sources}
    rep.assumptions = ["_show/_get/_set/_unset and the transport are recording stubs (the selftests substitute the same attributes); the real qcow2 chain transfer is not part of this check",
                       "`show` may list a state held by any permitted source (the statement promises 'only if in the cache or in permitted sources')"]
    return rep.finish()


def replay(path: str) -> int:
    print(open(path).read())
    return 0
