"""C11 — command line selections and overrides mean what the documentation says (E2/E4).

All argument lists up to a length bound over an alphabet of only/no/only_vmX/no_vmX/vms/nets/only_nets/K=V/malformed arguments, in any order
and multiplicity, through the real `params_from_cmd`; oracles: (i) a reference tokenizer written from the README, (ii) an independent matcher for
the Cartesian `,` / `..` / `.` operators over the universe of flat test (and vm) variants, (iii) every K=V visible in every parsed test.
"""
from __future__ import annotations

import itertools
import json
import re

from vt import common

ALPHABET = [
    "only=tutorial1", "only=normal", "only=leaves", "only=tutorial2..names", "only=quicktest,tutorial3", "only=names,files", "only=quicktest.tutorial2",
    "no=files", "no=tutorial3",
    "only_vm1=CentOS", "only_vm1=Fedora", "only_vm1=Linux", "only_vm1=", "no_vm2=Win7", "only_vm2=Windows",
    "vms=vm1", "vms=vm1,vm2", "nets=net1,net2", "only_nets=net1", "no_nets=net0", "file_contents=x,y", "dry_run=yes",
    "default_only_vm1=Fedora", "default_only=leaves", "default_only_vm2=Win7",
    "foo", "=x", "vms=vm9", "only_vm4=X", "only_vm1x=CentOS", "only_netsx=net1",
    # primary test sets joined to another name by each operator (single dot = immediately followed by)
    "only=leaves.quicktest", "only=minimal.quicktest", "no=minimal.quicktest", "only=all.quicktest", "only=normal.nongui.quicktest",
    "only=leaves..tutorial1", "only=leaves.quicktest,normal.nongui.quicktest",
    # malformed keys: a non-word character before the '='
    "some-key=value", "only-vm1=Fedora", "--only=minimal", "vm1.image_name=foo", " aaa=bbb", "get state=install",
]
QUICK_ALPHABET = ["only=tutorial1", "only=normal", "only=tutorial2..names", "only=names,files", "no=files",
                  "only_vm1=CentOS", "only_vm1=Linux", "only_vm1=", "no_vm2=Win7", "vms=vm1", "nets=net1,net2", "only_nets=net1", "file_contents=x,y",
                  "default_only_vm1=Fedora", "default_only=leaves", "foo", "vms=vm9", "only_vm4=X", "only_vm1x=CentOS",
                  "only=leaves.quicktest", "no=minimal.quicktest", "only=all.quicktest", "only-vm1=Fedora", "--only=minimal", "vm1.image_name=foo"]


def match_restriction(name: str, restr: str) -> bool:
    """Own implementation of the Cartesian filter operators: ',' = or, '..' = followed by, '.' = immediately followed by."""
    comps = name.split(".")
    for alt in restr.split(","):
        alt = alt.strip()
        groups = [g.split(".") for g in alt.split("..")]
        pos = 0
        ok = True
        for g in groups:
            found = None
            for i in range(pos, len(comps) - len(g) + 1):
                if comps[i:i + len(g)] == g:
                    found = i
                    break
            if found is None:
                ok = False
                break
            pos = found + len(g)
        if ok:
            return True
    return False


class Reference:
    """What the documentation says an argument list means."""

    def __init__(self, available_vms, main_restrictions, default_only, default_vm_only, all_nets):
        self.vms, self.mains, self.default_only, self.default_vm_only, self.all_nets = available_vms, main_restrictions, default_only, default_vm_only, all_nets

    def evaluate(self, args):
        tests_lines, vm_lines = [], {vm: [] for vm in self.vms}
        vm_touched = set()
        selected = list(self.vms)
        param_dict = {}
        primary_given = False
        nets_explicit = nets_restricted = False
        for a in args:
            m = re.fullmatch(r"(\w+)=(.*)", a)
            if not m:
                return ("error", "malformed")
            key, value = m.group(1), m.group(2)
            if key in ("only", "no"):
                for variant in re.split(r"\.\.|,|\.", value):
                    if variant in self.mains:
                        primary_given = True
                tests_lines.append(f"{key} {value}\n")
            elif key in ("only_nets", "no_nets"):
                nets_restricted = True
            elif key.startswith("only_") or key.startswith("no_"):
                kind, obj = key.split("_", 1)
                if obj not in self.vms:
                    return ("error", "unknown object")
                vm_touched.add(obj)
                if value:
                    vm_lines[obj].append(f"{kind} {value}\n")
            elif key == "vms":
                selected = value.split(",")
                if any(v not in self.vms for v in selected):
                    return ("error", "unknown vm")
            elif key == "nets":
                nets_explicit = True
                param_dict["nets"] = value.replace(",", " ")
            else:
                param_dict[key] = value.replace(",", " ")
        if nets_explicit and nets_restricted:
            return ("error", "conflicting nets")
        if not primary_given:
            default_only = param_dict.get("default_only", self.default_only)
            if default_only not in self.mains:
                return ("error", "invalid default set")
            tests_lines.append(f"only {default_only}\n")
        vm_strs = {}
        for vm in self.vms:
            if vm not in selected:
                continue
            s = "".join(vm_lines[vm])
            default_vm = param_dict.get(f"default_only_{vm}", self.default_vm_only.get(vm))
            if vm not in vm_touched and default_vm:
                s += f"only {default_vm}\n"
            vm_strs[vm] = s
        return ("ok", {"tests_lines": tests_lines, "vm_strs": vm_strs, "param_dict": param_dict, "nets_restricted": nets_restricted})


def run(tier: str, seed: int) -> int:
    common.bootstrap("mini")
    from vt.e1 import engine

    engine.install_memo()
    from avocado_i2n import cmd_parser
    from avocado_i2n import params_parser as param
    from avocado_i2n.cartgraph import TestGraph

    rep = common.Report("C11", tier, seed, "bounded exhaustive enumeration of argument lists through the real command line parser vs a reference tokenizer and an independent Cartesian matcher")
    q = tier == "quick"
    alphabet = QUICK_ALPHABET if q else ALPHABET
    maxlen = 2 if q else 3
    rep.rule = (f"argument lists = all sequences of length <= {maxlen} (any order, with repetition) over an alphabet of {len(alphabet)} arguments; "
                "distinct = distinct lists that the reference accepts (non-error) plus distinct error classes per list")
    available_vms = param.all_objects("vms")
    mains = param.all_restrictions()
    # defaults, read with the same configuration files but none of the command line code
    tcfg = param.Reparsable()
    tcfg.parse_next_batch(base_file="groups-base.cfg", ovrwrt_file=param.tests_ovrwrt_file())
    default_only = tcfg.get_params().get("default_only", "all")
    vcfg = param.Reparsable()
    vcfg.parse_next_batch(base_file="guest-base.cfg", ovrwrt_file=param.vms_ovrwrt_file())
    vparams = vcfg.get_params()
    default_vm_only = {vm: vparams.get(f"default_only_{vm}") for vm in available_vms}
    ref = Reference(available_vms, mains, default_only, default_vm_only, param.all_objects("nets"))
    # universes for the independent matcher
    universe = [n.params["name"] for n in TestGraph.parse_flat_nodes("")]
    vm_universe = {vm: [o.params["name"] for o in TestGraph.parse_flat_objects(vm, "vms")] for vm in available_vms}
    rep.sections["universe"] = {"tests": len(universe), "vm_variants": {k: len(v) for k, v in vm_universe.items()}}

    sel_cache = {}

    def selected_names(tests_str, param_dict):
        key = (tests_str, json.dumps(param_dict, sort_keys=True))
        if key not in sel_cache:
            try:
                nodes = TestGraph.parse_flat_nodes(tests_str, dict(param_dict))
                sel_cache[key] = (sorted(n.params["name"] for n in nodes), nodes)
            except param.EmptyCartesianProduct:
                sel_cache[key] = ([], [])
        return sel_cache[key]

    vm_cache = {}

    def vm_variants(vm, vm_str):
        key = (vm, vm_str)
        if key not in vm_cache:
            try:
                vm_cache[key] = sorted(o.params["name"] for o in TestGraph.parse_flat_objects(vm, "vms", vm_str))
            except param.EmptyCartesianProduct:
                vm_cache[key] = []
        return vm_cache[key]

    lists = []
    for L in range(0, maxlen + 1):
        lists += list(itertools.product(alphabet, repeat=L))
    n_lists = 0
    for args in lists:
        n_lists += 1
        cfg = {"params": list(args)}
        exp = ref.evaluate(args)
        try:
            cmd_parser.params_from_cmd(cfg)
            got_err = None
        except ValueError as e:
            got_err = f"ValueError: {e}"
        except param.EmptyCartesianProduct:
            got_err = "EmptyCartesianProduct"
        except Exception as e:  # noqa: BLE001
            got_err = f"{type(e).__name__}: {e}"
        rep.transitions += 1
        inp = {"args": list(args)}
        if exp[0] == "error":
            rep.distinct.add(("err", exp[1], args))
            if got_err is None:
                rep.violation(f"arguments {list(args)} must be rejected ({exp[1]}) but were accepted: tests_str={cfg.get('tests_str')!r} "
                              f"vm_strs={cfg.get('vm_strs')} param_dict={cfg.get('param_dict')}", inp, {"kind": "accepted", "why": exp[1]})
            continue
        e = exp[1]
        if got_err is not None:
            # an empty selection may legitimately be reported as an error; anything else is a rejection of valid input
            expected_names = [n for n in universe if all(match_restriction(n, l.split(" ", 1)[1].strip()) == l.startswith("only ") for l in e["tests_lines"])]
            if got_err.startswith("EmptyCartesianProduct") or not expected_names:
                rep.note("an empty selection is reported as EmptyCartesianProduct (accepted)")
                continue
            rep.violation(f"valid arguments {list(args)} rejected with {got_err}", inp, {"kind": "rejected", "err": got_err.split(":")[0]})
            continue
        rep.distinct.add(("ok", args))
        # (i) tokenizer level
        got_lines = [l + "\n" for l in cfg["tests_str"].split("\n") if l]
        if got_lines != e["tests_lines"]:
            rep.violation(f"{list(args)}: test restriction {got_lines} differs from the documented {e['tests_lines']}", inp, {"kind": "tests_str"})
        if cfg["vm_strs"] != e["vm_strs"]:
            rep.violation(f"{list(args)}: vm restrictions {cfg['vm_strs']} differ from the documented {e['vm_strs']}", inp, {"kind": "vm_strs"})
        gp = dict(cfg["param_dict"])
        if e["nets_restricted"]:
            gp.pop("nets", None)
        if gp != e["param_dict"]:
            rep.violation(f"{list(args)}: parameters {cfg['param_dict']} differ from the documented {e['param_dict']}", inp, {"kind": "param_dict"})
        if e["nets_restricted"]:
            nets_lines = [(a.split("=", 1)[0].split("_")[0], a.split("=", 1)[1]) for a in args if a.startswith(("only_nets=", "no_nets="))]
            kind, val = nets_lines[-1]
            exp_nets = [n for n in ref.all_nets if (match_restriction("nets." + n.replace(".", ".").split(".")[-1] if False else n.split(".")[-1], val) or match_restriction(n, val)) == (kind == "only")]
            if cfg["param_dict"].get("nets", "").split() != exp_nets:
                rep.violation(f"{list(args)}: nets {cfg['param_dict'].get('nets')!r}, the restriction selects {exp_nets}", inp, {"kind": "nets"})
        # (ii) selection level, independent matcher
        names, nodes = selected_names(cfg["tests_str"], cfg["param_dict"])
        expected_names = sorted(n for n in universe if all(match_restriction(n, l.split(" ", 1)[1].strip()) == l.startswith("only ") for l in e["tests_lines"]))
        if names != expected_names:
            rep.violation(f"{list(args)}: selects {len(names)} tests, the documented operators select {len(expected_names)} "
                          f"(only in selection: {sorted(set(names) - set(expected_names))[:3]}, missing: {sorted(set(expected_names) - set(names))[:3]})", inp, {"kind": "selection"})
        for vm, vm_str in cfg["vm_strs"].items():
            got_v = vm_variants(vm, vm_str)
            exp_v = sorted(n for n in vm_universe[vm] if all(match_restriction(n, l.split(" ", 1)[1].strip()) == l.startswith("only ") for l in vm_str.splitlines() if l))
            if got_v != exp_v:
                rep.violation(f"{list(args)}: {vm} restricted to {got_v}, the documented operators give {exp_v}", inp, {"kind": "vm-selection"})
        for k, v in e["param_dict"].items():
            if k != "nets" and cfg["vms_params"].get(k) != v:
                rep.violation(f"{list(args)}: {k}={v!r} does not override the vm parameters ({cfg['vms_params'].get(k)!r})", inp, {"kind": "override-vms"})
            if k != "nets" and cfg["tests_params"].get(k) != v:
                rep.violation(f"{list(args)}: {k}={v!r} does not override the test parameters ({cfg['tests_params'].get(k)!r})", inp, {"kind": "override-tests"})
        # (iii) overrides visible in every parsed test
        for k, v in e["param_dict"].items():
            if k == "nets":
                continue
            bad = [n.params["name"] for n in nodes if n.params.get(k) != v]
            if bad:
                rep.violation(f"{list(args)}: {k}={v!r} is not seen by {len(bad)} of {len(nodes)} selected tests (e.g. {bad[0]})", inp, {"kind": "override"})
        if n_lists in (3, 40, 200):
            rep.sample({"args": list(args), "tests_str": cfg["tests_str"], "vm_strs": cfg["vm_strs"], "param_dict": cfg["param_dict"], "selected": len(names)})
    # documented equivalences, checked explicitly on selections (differential, no expected value written by hand)
    pairs = [(["only=leaves", "only=tutorial2", "only=names"], ["only=leaves..tutorial2..names"]), (["only=tutorial2", "only=names"], ["only=tutorial2..names"]),
             (["only=leaves", "only=tutorial2"], ["only=leaves..tutorial2"]),
             (["only=tutorial2", "only=leaves"], ["only=leaves..tutorial2"]), (["only=tutorial1"], [f"only={default_only}", "only=tutorial1"]),
             (["only=leaves", "only=quicktest", "no=names"], ["no=names", "only=quicktest", "only=leaves"]),
             (["only=normal..tutorial2", "only=names,files"], ["only=normal", "only=tutorial2", "only=names,files"]),
             (["only=minimal", "only=quicktest"], ["only=minimal..quicktest"])]
    for a, b in pairs:
        ca, cb = {"params": a}, {"params": b}

        def sel(c):
            try:
                cmd_parser.params_from_cmd(c)
            except param.EmptyCartesianProduct:
                return []
            return selected_names(c["tests_str"], c["param_dict"])[0]

        na, nb = sel(ca), sel(cb)
        rep.transitions += 2
        if na != nb:
            rep.violation(f"documented equivalence broken: {a} selects {len(na)} tests, {b} selects {len(nb)}", {"a": a, "b": b}, {"kind": "equivalence"})
    # (iv) per-vm restrictions narrow the objects of the tests that are actually composed for a run (the loader's flat tests, restricted per vm,
    # expanded on demand by a dry-run traversal): no composed test may use a vm variant the command line excludes
    from vt.e4 import driver, parsemc

    e2e = 0
    selections = ["only=tutorial1", "only=leaves..tutorial_gui..client_noop", "only=tutorial3"]
    vm_args = [["only_vm1=CentOS"], ["only_vm1=Fedora"], ["only_vm1=qemu_kvm_centos"], ["only_vm1=qemu_kvm_fedora"], ["only_vm1=Linux"], ["no_vm1=Fedora"],
               ["only_vm2=Win7"], ["only_vm2=qemu_kvm_windows_10"], ["only_vm1=qemu_kvm_centos", "no_vm2=Win7"]]
    if q:
        vm_args = vm_args[:4] + vm_args[-1:]
    for sel_arg in selections:
        for va in vm_args:
            c = {"params": [sel_arg] + va}
            try:
                cmd_parser.params_from_cmd(c)
                x = driver.parse_lazy_complete({"id": "c11:" + " ".join(c["params"]), "restriction": c["tests_str"], "nets": "net1", "vm_strs": c["vm_strs"]})
            except param.EmptyCartesianProduct:
                continue
            e2e += 1
            rep.transitions += 1
            if x.exc:
                rep.violation(f"{c['params']}: expanding the selected tests failed with {x.exc}", {"args": c["params"]}, {"kind": "e2e-exception"})
                continue
            for n in x.graph.nodes:
                if n.is_flat() or n.is_shared_root():
                    continue
                for o in n.objects:
                    if o.key != "vms":
                        continue
                    restr = c["vm_strs"].get(o.suffix, "")
                    if not parsemc.admits(restr, o.component_form):
                        rep.violation(f"{c['params']}: the composed test {n.params['name'][:80]} uses {o.suffix} variant {o.component_form} which the restriction {restr!r} excludes",
                                      {"args": c["params"], "test": n.params["name"]}, {"kind": "vm-restriction-not-applied"})
            rep.distinct.add(("e2e", tuple(c["params"])))
    rep.sections["composed_runs"] = e2e
    rep.states = n_lists
    rep.evaluations = n_lists
    rep.traces_validated = rep.transitions
    rep.sections["lists"] = n_lists
    rep.sections["distinct_selections_parsed"] = len(sel_cache)
    rep.bounds = {"list_length": maxlen, "alphabet": alphabet}
    rep.assumptions = ["the universe of tests/vm variants is the flat Cartesian parse with no restriction (trusted: virttest's Cartesian parser)",
                       "mini-suite: shipped sets/groups/nets/vms configs with trimmed guest configs"]
    return rep.finish()


def replay(path: str) -> int:
    print(open(path).read())
    return 0
