"""C15 — the update tool reruns exactly the requested path and drops only its dependants (E1 over the tool entry point)."""
from __future__ import annotations

import collections
import itertools
import json
import re

from vt import common

ALL_STATES = ["install", "customize", "on_customize", "connect", "linux_virtuser", "windows_virtuser"]
AVAILABLE_VMS = {"vm1": "only CentOS\n", "vm2": "only Win10\n", "vm3": "only Ubuntu\n"}


# ------------------------------------------------------------------------------------------------
# independent resolver over the flat declarations (none of the graph / tool code)
# ------------------------------------------------------------------------------------------------
class Resolver:
    def __init__(self):
        from avocado_i2n.cartgraph import TestGraph
        from vt.e4.parsemc import match_restriction

        self.match = match_restriction
        self.universe = TestGraph.parse_flat_nodes("all")
        self.names = [n.params["name"] for n in self.universe]

    def decl(self, node, vm):
        """(get restriction, get_state, set_state) declared by a flat test for the vm's image and for the vm itself."""
        vp = node.params.object_params(vm)
        out = []
        for key in ("images", "vms"):
            tp = vp.object_params(key)
            out.append((key, tp.get("get"), tp.get("get_state"), tp.get("set_state")))
        return out

    def ok(self, n, vm, variant):
        """Does the flat test admit this variant of the vm (its own per-vm restriction, e.g. `only CentOS`)?"""
        if variant is None:
            return True
        from vt.e4.parsemc import admits

        return admits(n.restrs.get(vm, ""), variant)

    def producers(self, restr, vm=None, variant=None):
        return [n for n in self.universe if self.match(n.params["name"], "all.." + restr) and self.ok(n, vm, variant)]

    def chain(self, vm, variant=None):
        """state -> (producing flat test, parent state) for the single-vm setup chain of the vm."""
        out = {}
        for n in self.universe:
            if not self.ok(n, vm, variant):
                continue
            if ".internal.automated." not in "." + n.params["name"] + "." and ".original." not in "." + n.params["name"] + ".":
                continue
            for key, get, get_state, set_state in self.decl(n, vm):
                if set_state:
                    parent = None
                    for k2, g2, gs2, _ in self.decl(n, vm):
                        if g2 and gs2 and gs2 not in ("0root", "root"):
                            parent = gs2
                    out.setdefault(set_state, (n.params["name"], parent))
        return out

    def path(self, vm, from_state, to_state, variant=None):
        ch = self.chain(vm, variant)
        if to_state not in ch or from_state not in ch:
            return None
        states = [to_state]
        cur = to_state
        while cur != from_state:
            parent = ch[cur][1]
            if parent is None:
                return None  # from_state is not an ancestor of to_state
            states.append(parent)
            cur = parent
        return list(reversed(states))

    def closure(self, vm, remove_set, variant=None):
        """Flat tests of the remove set plus every setup test they need (transitively) for this vm, from the declarations alone."""
        key = (vm, remove_set, variant)
        if not hasattr(self, "_closures"):
            self._closures = {}
        if key in self._closures:
            return self._closures[key]
        restr = remove_set if any(r in remove_set for r in ("leaves", "normal", "minimal")) else "all.." + remove_set
        # membership of the test sets comes from the unrestricted flat parse (names carry their set variant)
        if not hasattr(self, "_full"):
            from avocado_i2n.cartgraph import TestGraph
            from vt.e4.parsemc import strip_set

            self._full = [n.params["name"] for n in TestGraph.parse_flat_nodes("")]
            self._strip = strip_set
        wanted = set()
        for name in self._full:
            if self.match(name, restr):
                base = self._strip(name)
                if not base.startswith(("internal.", "original.")):
                    wanted.add("all." + base)
        frontier = [n for n in self.universe if n.params["name"] in wanted and self.ok(n, vm, variant)]
        seen = {n.params["name"] for n in frontier}
        while frontier:
            n = frontier.pop()
            for key2, get, get_state, set_state in self.decl(n, vm):
                if not get:
                    continue
                for p in self.producers(get, vm, variant):
                    if p.params["name"] not in seen:
                        seen.add(p.params["name"])
                        frontier.append(p)
        self._closures[key] = seen
        return seen

    def derived_states(self, vm, state, remove_set="leaves", variant=None):
        """States of the vm derived (transitively) from `state` by the tests of the remove set and their setup, when run on that vm."""
        members = self.closure(vm, remove_set, variant)
        result = set()
        frontier = [state]
        seen_states = {state}
        while frontier:
            s = frontier.pop()
            for n in self.universe:
                if n.params["name"] not in members:
                    continue
                for key, get, get_state, set_state in self.decl(n, vm):
                    if not get:
                        continue
                    prods = self.producers(get, vm, variant)
                    parent_states = set()
                    for p in prods:
                        for k2, _, _, ps in self.decl(p, vm):
                            if ps:
                                parent_states.add(ps)
                    multi = len(prods) > 1
                    if not ((multi and s in parent_states) or (not multi and get_state == s)):
                        continue
                    for k3, _, _, own_set in self.decl(n, vm):
                        if not own_set:
                            continue
                        new = own_set + "." + s if multi else own_set
                        if new not in seen_states:
                            seen_states.add(new)
                            result.add(new)
                            frontier.append(new)
        return result


def make_config(vms, nets, vm_params, vm_strs=None, run_params=None):
    from virttest import utils_params

    config = {}
    config["available_vms"] = dict(AVAILABLE_VMS)
    config["available_vms"].update({v: r for v, r in (vm_strs or {}).items()})  # as the command line parser fills it
    config["available_restrictions"] = ["leaves", "normal", "minimal"]
    config["param_dict"] = {"nets": nets}
    config["param_dict"].update(run_params or {})
    config["vm_strs"] = {v: (vm_strs or {}).get(v, AVAILABLE_VMS[v]) for v in vms}
    config["tests_str"] = {}
    config["tests_params"] = utils_params.Params()
    config["vms_params"] = utils_params.Params(vm_params)
    return config


def analyse(case):
    from avocado_i2n import intertest_setup
    from vt.e1 import engine, tools

    vms, nets, frm, to, remove_set, prefix = case["vms"], case["nets"], case["from"], case["to"], case.get("remove_set"), case.get("prefix", [])
    vp = {}
    for v in vms:
        if frm:
            vp[f"from_state_{v}"] = frm
        if to:
            vp[f"to_state_{v}"] = to
        if remove_set:
            vp[f"remove_set_{v}"] = remove_set
    config = make_config(vms, nets, vp, case.get("vm_strs"), case.get("params"))
    everything = [(f"image1_{v}", s) for v in ("vm1", "vm2", "vm3") for s in ALL_STATES] + [(v, "on_customize") for v in ("vm1", "vm2", "vm3")]
    scn = engine.Scenario("update", "", nets, shared=everything, D=(1.0, 3.0), O=("PASS",), params=case.get("params"))
    r = tools.run_tool(scn, lambda: intertest_setup.update(config, tag="1r"), prefix)
    runs = [(e["w"], e["ident"], e["type"] == "shared_configure_install") for e in r.trace if e["k"] == "start"]
    unsets = sorted({(e["w"], it[0], it[2], it[1]) for e in r.trace if e["k"] == "door" and e["do"] == "unset" for it in e["items"]})
    gets = [e for e in r.trace if e["k"] == "door" and e["do"] == "get"]
    return {"case": case, "exc": r.exc, "exc_type": r.exc_type, "runs": runs, "unsets": unsets, "rc": r.rc, "points": len(r.points), "door_gets": len(gets),
            "choices": r.choices, "kinds": [p[0] for p in r.points]}


def state_of_run(ident):
    m = re.search(r"\.internal\.automated\.(\w+)\.", "." + ident + ".")
    if m:
        return m.group(1)
    if ".original." in "." + ident + ".":
        return "install"
    return None


def vm_of_run(ident):
    m = re.search(r"\.vms\.(vm\d)\.", ident)
    return m.group(1) if m else None


# worker restrictions as written in nets.cfg (transcribed, not read through the code under test)
WORKER_RESTR = {"net3": {"vm1": "only CentOS,Fedora\n", "vm2": "no WinXP,Win8\n"}, "net5": {"vm1": "only Fedora\n", "vm2": "no Win7\n"}}


def worker_ok(worker, case, vm, var):
    """Can the worker take part in updating this variant of the vm?  Its own restrictions must admit the variant and leave at least one
    variant of every other available vm (the worker's environment is parsed with all of them)."""
    from vt.e4.parsemc import admits

    restr = WORKER_RESTR.get(worker, {})
    if not admits(restr.get(vm, ""), var):
        return False
    for other in AVAILABLE_VMS:
        if other == vm:
            continue
        avail = (case.get("vm_strs") or {}).get(other, AVAILABLE_VMS[other])
        if not any(admits(restr.get(other, ""), v) for v in variants_of(other, avail)):
            return False
    return True


_variants = {}


def variants_of(vm, restr):
    """Variant names of the vm objects a restriction admits (flat Cartesian parse of the vm configs only)."""
    if (vm, restr) not in _variants:
        from avocado_i2n.cartgraph import TestGraph

        _variants[(vm, restr)] = [o.params["name"].split(f"vms.{vm}.", 1)[1] for o in TestGraph.parse_flat_objects(vm, "vms", restr)]
    return _variants[(vm, restr)]


def variant_in(text, variants):
    return next((v for v in sorted(variants, key=len, reverse=True) if v in text), None)


def run(tier: str, seed: int) -> int:
    common.bootstrap("mini")
    from vt.e1 import engine

    engine.install_memo()
    rep = common.Report("C15", tier, seed, "enumeration of (from_state, to_state) pairs x vm selections x worker sets through the real update tool on the virtual-time loop, schedules within k deviations; independent chain resolver")
    rep.rule = ("cases = all (from,to) pairs along each vm's declared setup chain (incl. non-existent names) x vm selections x worker sets x remove_set; per case the default schedule and "
                "every single deviation (quick: first cases only); distinct = distinct (case, executed tests, removed states)")
    res = Resolver()
    q = tier == "quick"
    cases = []
    chain1 = res.chain("vm1")
    states1 = [s for s in ALL_STATES if s in chain1]
    pairs = []
    for a, b in itertools.product(states1, repeat=2):
        if res.path("vm1", a, b) is not None:
            pairs.append((a, b))
    for (a, b) in pairs:
        if q and (a, b) not in (("install", "install"), ("install", "customize"), ("customize", "connect"), ("customize", "customize"), ("connect", "connect"), ("install", "on_customize")):
            continue
        cases.append({"vms": ["vm1"], "nets": "net1", "from": a, "to": b})
    cases.append({"vms": ["vm1"], "nets": "net1 net2", "from": "customize", "to": "connect"})
    cases.append({"vms": ["vm2"], "nets": "net1", "from": None, "to": None})
    cases.append({"vms": ["vm1", "vm2"], "nets": "net1 net2", "from": None, "to": None})
    cases.append({"vms": ["vm1", "vm2"], "nets": "net1 net2 net4", "from": None, "to": None})
    cases.append({"vms": ["vm1"], "nets": "net1", "from": "bogus", "to": "customize"})
    cases.append({"vms": ["vm1"], "nets": "net1", "from": "customize", "to": "bogus"})
    cases.append({"vms": ["vm1"], "nets": "net1", "from": "install", "to": "customize", "remove_set": "tutorial_gui"})
    cases.append({"vms": ["vm1"], "nets": "net1", "from": "install", "to": "customize", "remove_set": "minimal"})
    cases.append({"vms": ["vm2"], "nets": "net1 net2", "from": "install", "to": "customize", "remove_set": "minimal"})
    if not q:
        cases.append({"vms": ["vm2"], "nets": "net1 net2", "from": "customize", "to": "windows_virtuser"})
        cases.append({"vms": ["vm1", "vm2"], "nets": "net1 net2 net4", "from": "customize", "to": "customize"})
        cases.append({"vms": ["vm1"], "nets": "net1 net2 net3", "from": "install", "to": "connect"})
        cases.append({"vms": ["vm1"], "nets": "net1", "from": "install", "to": "customize", "remove_set": "leaves..tutorial_get"})
    # vms selected with several variants (or another one than the default): the path is rerun and the dependants dropped per variant
    for frm, to in ((None, None), ("install", "customize"), ("customize", "customize"), ("customize", "linux_virtuser"), ("on_customize", "on_customize")):
        cases.append({"vms": ["vm1"], "nets": "net1", "from": frm, "to": to, "vm_strs": {"vm1": ""}})
    cases.append({"vms": ["vm1"], "nets": "net1 net2", "from": "customize", "to": "connect", "vm_strs": {"vm1": ""}})
    cases.append({"vms": ["vm1"], "nets": "net1", "from": "customize", "to": "connect", "vm_strs": {"vm1": "only Fedora\n"}})
    cases.append({"vms": ["vm1", "vm2"], "nets": "net1 net2", "from": "customize", "to": "customize", "vm_strs": {"vm1": "", "vm2": ""}})
    # workers whose own restrictions exclude the vm variants, before / between / after compatible ones
    for nets in ("net5 net1", "net1 net5 net2", "net1 net2 net5", "net3 net5 net1"):
        cases.append({"vms": ["vm1"], "nets": nets, "from": "customize", "to": "customize"})
        cases.append({"vms": ["vm2"], "nets": nets, "from": None, "to": None})
    cases.append({"vms": ["vm1"], "nets": "net5 net1", "from": "customize", "to": "customize", "vm_strs": {"vm1": ""}})
    # narrowed reuse scopes: every worker (or swarm) keeps its own setup and has to rerun the path itself
    for scope in ("own", "own shared", "own swarm shared"):
        cases.append({"vms": ["vm1"], "nets": "net1 net2", "from": "customize", "to": "customize", "params": {"pool_scope": scope}})
        cases.append({"vms": ["vm1", "vm2"], "nets": "net1 net2", "from": None, "to": None, "params": {"pool_scope": scope}})
    cases.append({"vms": ["vm1"], "nets": "cluster1.net6 cluster1.net7 cluster2.net6", "from": "customize", "to": "customize", "params": {"pool_scope": "own swarm shared"}})
    # schedule deviations: for multi-worker cases every single non-default choice
    results = list(common.pmap(analyse, cases))
    extra = []
    for r0 in results:
        c = r0["case"]
        if len(c["nets"].split()) > 1 and not r0["exc"]:
            limit = 12 if q else 60
            count = 0
            for i, kind in enumerate(r0["kinds"]):
                if kind in ("DUR", "TIE") and count < limit:
                    count += 1
                    extra.append(dict(c, prefix=r0["choices"][:i] + [1]))
    results += list(common.pmap(analyse, extra))
    for r in results:
        c = r["case"]
        cid = f"vms={','.join(c['vms'])} nets={c['nets']} {c['from']}->{c['to']} remove_set={c.get('remove_set')}" + (f" params={c['params']}" if c.get("params") else "") + (f" vm_strs={c['vm_strs']}" if c.get("vm_strs") else "")
        vmv = {vm: variants_of(vm, (c.get("vm_strs") or {}).get(vm, AVAILABLE_VMS[vm])) for vm in c["vms"]}
        rep.evaluations += 1
        rep.transitions += r["points"] + 1
        rep.traces_validated += 1
        inp = dict(c)
        bogus = c["from"] == "bogus" or c["to"] == "bogus"
        # a state no test of the remove set (with its setup) produces for this vm does not exist in the graph either
        for vm in c["vms"]:
            for var in (vmv[vm] if c.get("vm_strs") else [None]):
                members = res.closure(vm, c.get("remove_set") or "leaves", var)
                produced = {"install"}
                for n in res.universe:
                    if n.params["name"] in members:
                        for key, get, get_state, set_state in res.decl(n, vm):
                            if set_state:
                                produced.add(set_state)
                if (c["to"] or "customize") not in produced:
                    bogus = True
        if bogus:
            if r["exc"] is None:
                rep.violation(f"[{cid}] a state that does not exist was accepted (rc={r['rc']}, runs={len(r['runs'])})", inp, {"kind": "bogus-accepted"})
            elif r["runs"] or r["unsets"]:
                rep.violation(f"[{cid}] rejected with {r['exc_type']} but after executing {r['runs']} / removing {r['unsets']}", inp, {"kind": "bogus-side-effects"})
            rep.distinct.add((cid, "rejected"))
            continue
        if r["exc"] is not None:
            rep.violation(f"[{cid}] update failed with {r['exc']}", inp, {"kind": "exception", "type": r["exc_type"]})
            continue
        workers = c["nets"].split()
        exp_runs, exp_unsets = set(), set()
        for vm in c["vms"]:
            frm = c["from"] or "install"
            to = c["to"] or "customize"
            for var in vmv[vm]:
                v_ = var if c.get("vm_strs") else None
                path = res.path(vm, frm, to, v_)
                derived = res.derived_states(vm, to, c.get("remove_set") or "leaves", v_)
                if not any(worker_ok(w, c, vm, var) for w in workers):
                    continue  # no worker can take this variant: nothing to run or remove
                for s in path:
                    exp_runs.add((vm, s, var))
                exp_unsets |= {(vm, s, var) for s in derived}
        got_runs = {}
        for w, ident, pre in r["runs"]:
            st, vm = state_of_run(ident), vm_of_run(ident)
            if pre:
                continue
            got_runs.setdefault((vm, st, variant_in(ident, vmv.get(vm, []))), []).append(w)
        for k, ws in got_runs.items():
            if k not in exp_runs:
                rep.violation(f"[{cid}] executed {k[1]} of {k[0]} [{k[2]}] (on {ws}) which is not on the path {sorted(exp_runs)}", inp, {"kind": "extra-run", "state": k[1]})
            else:
                # the path is run once per reuse scope (the whole run; every swarm or every worker when the pool scope is narrowed)
                scopes = str((c.get("params") or {}).get("pool_scope", "own swarm cluster shared")).split()
                able = [w for w in workers if worker_ok(w, c, k[0], k[2])]
                if "swarm" not in scopes:
                    units = {w: w for w in able}
                elif "cluster" not in scopes:
                    units = {w: (w.split(".")[0] if "." in w else "localhost") for w in able}
                else:
                    units = {w: "run" for w in able}
                want_units = set(units.values())
                got_units = collections.Counter(units.get(w, "?" + w) for w in ws)
                if set(got_units) != want_units or any(v != 1 for v in got_units.values()):
                    rep.violation(f"[{cid}] executed {k[1]} of {k[0]} on {ws}; the path is run once per reuse scope {sorted(want_units)}", inp,
                                  {"kind": "repeated-run" if len(ws) > len(want_units) else "missing-run", "state": k[1], "scoped": len(want_units) > 1})
        for k in exp_runs - set(got_runs):
            rep.violation(f"[{cid}] did not execute {k[1]} of {k[0]} [{k[2]}] although it is on the path", inp, {"kind": "missing-run", "state": k[1]})
        got_unsets = {}
        for w, suffix, state, variant in r["unsets"]:
            vm = suffix.split("_")[-1]
            got_unsets.setdefault((vm, state, variant_in(variant, vmv.get(vm, []))), set()).add(w)
        for k, ws in got_unsets.items():
            if k[0] not in c["vms"]:
                rep.violation(f"[{cid}] removed state {k[1]} of unselected {k[0]}", inp, {"kind": "foreign-unset"})
            elif k not in exp_unsets and True:
                rep.violation(f"[{cid}] removed {k[1]} of {k[0]} which is not derived from the target state (derived: {sorted({s for v, s, _ in exp_unsets if v == k[0]})})", inp, {"kind": "extra-unset", "state": k[1]})
            elif k not in exp_unsets:
                rep.violation(f"[{cid}] removed {k[1]} of {k[0]} which is not derived from the target state at all", inp, {"kind": "extra-unset", "state": k[1]})
        if True:
            for k in exp_unsets:
                ws = got_unsets.get(k, set())
                need = {w for w in workers if worker_ok(w, c, k[0], k[2])}
                if need - ws:
                    rep.violation(f"[{cid}] derived state {k[1]} of {k[0]} [{k[2]}] was not removed on workers {sorted(need - ws)}", inp, {"kind": "missing-unset", "state": k[1]})
        if r["door_gets"]:
            rep.note("state copy requests were issued during update")
        rep.distinct.add((cid, json.dumps(sorted(map(str, got_runs))), json.dumps(sorted(map(str, got_unsets)))))
        if len(rep.samples) < 4 and not c.get("prefix"):
            rep.sample({"case": cid, "executed": sorted(f"{v}:{s}@{','.join(ws)}" for (v, s, _), ws in got_runs.items()), "removed": sorted(f"{v}:{s}" for (v, s, _) in got_unsets)})
    rep.states = len(results)
    rep.sections["cases"] = len(cases)
    rep.sections["schedule_deviation_runs"] = len(extra)
    rep.bounds = {"pairs": len(pairs), "workers": "1-3", "schedule_deviations": 1}
    rep.assumptions = ["a test is modelled by the world (every state of the chain is available so that nothing aborts)",
                       "expected path and derived states come from an own resolver over the flat Cartesian declarations (get/get_state/set_state per vm); trusted: virttest's Cartesian parser",
                       "pairs are those with from_state an ancestor of or equal to to_state; reversed pairs have no path in the sense of the statement"]
    return rep.finish()


def replay(path: str) -> int:
    print(open(path).read())
    return 0
