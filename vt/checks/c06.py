"""C06 — the parsed dependency graph is well formed (E4)."""
from vt.e4 import driver


def run(tier, seed):
    return driver.run_parse_check("C06", tier, seed, "exhaustive enumeration of parser inputs over a finite family, own graph walk on the result of the real parser (eager and lazy)",
                                  "inputs = restriction (suite sets x leaf groups) x per-vm restriction (default, any variant, specific variants) x worker set (single, pair, restricted nets, "
                                  "clusters, serial); each is parsed up front and lazily (dry-run traversal); states = nodes of the parsed graphs; distinct = distinct (input, graph size)",
                                  ["exhaustive over the stated finite input family, not over all restriction strings", "trusted: virttest's Cartesian parser"])


def replay(path):
    print(open(path).read())
    return 0
