"""C12 — state operations follow the documented policy table and a store model (E2).

Depth 1: the full product of operation x mode letters x presence x root presence x root keyword/ordinary state x object level x
check mode x skip_types x readonly, on the real `states.setup` functions over an in-memory backend registered in BACKENDS.
Depth <=3: BFS over call sequences from every initial store; the store after every step equals a plain set-of-names model.
"""
from __future__ import annotations

import collections
import copy
import itertools
import json
import unittest.mock as mock

from vt import common

LETTERS = "arifx"
ROOTS = ["root", "0root", "boot", "0boot"]

# README table: action by (operation, state present?) and the letter in the relevant position
TABLE = {
    ("get", True): {"a": "abort", "r": "do", "i": "skip"}, ("get", False): {"a": "abort", "i": "skip"},
    ("set", True): {"a": "abort", "r": "skip", "f": "force"}, ("set", False): {"a": "abort", "f": "do"},
    ("unset", True): {"r": "skip", "f": "do"}, ("unset", False): {"a": "abort", "i": "skip"},
}
DEFAULT_MODE = {"get": "ra", "set": "ff", "unset": "fi", "check": None}


class Store:
    """Reference model: a plain set of state names per object plus the set of existing objects (roots)."""

    def __init__(self, states=None, roots=None):
        self.states = {k: set(v) for k, v in (states or {}).items()}
        self.roots = set(roots or ())

    def copy(self):
        return Store(self.states, self.roots)

    def key(self):
        return json.dumps([sorted((list(k), sorted(v)) for k, v in self.states.items() if v), sorted(list(r) for r in self.roots)])


def make_backend():
    from avocado_i2n.states import setup as ss

    class Mem(ss.StateBackend):
        store = None
        calls = None

        @classmethod
        def k(cls, params):
            # identity of the addressed object independent of how deep the current call chain is nested
            # (the state check re-enters with the hierarchy restricted to the object's own level)
            level = params["object_type"].split("/")[-1]
            if level == "nets":
                return ("nets", params["nets"])
            if level == "vms":
                return ("vms", params["vms"])
            return ("images", params["vms"] + "/" + params["images"])

        @classmethod
        def show(cls, params, object=None):
            cls.calls.append(("show", cls.k(params)))
            return sorted(cls.store.states.get(cls.k(params), set()))

        @classmethod
        def get(cls, params, object=None):
            cls.calls.append(("get", cls.k(params), params["get_state"]))

        @classmethod
        def set(cls, params, object=None):
            cls.calls.append(("set", cls.k(params), params["set_state"]))
            cls.store.states.setdefault(cls.k(params), set()).add(params["set_state"])

        @classmethod
        def unset(cls, params, object=None):
            cls.calls.append(("unset", cls.k(params), params["unset_state"]))
            cls.store.states.get(cls.k(params), set()).discard(params["unset_state"])

        @classmethod
        def check_root(cls, params, object=None):
            cls.calls.append(("check_root", cls.k(params)))
            return cls.k(params) in cls.store.roots

        @classmethod
        def get_root(cls, params, object=None):
            cls.calls.append(("get_root", cls.k(params)))

        @classmethod
        def set_root(cls, params, object=None):
            cls.calls.append(("set_root", cls.k(params)))
            cls.store.roots.add(cls.k(params))

        @classmethod
        def unset_root(cls, params, object=None):
            cls.calls.append(("unset_root", cls.k(params)))
            cls.store.roots.discard(cls.k(params))
            cls.store.states.pop(cls.k(params), None)

    return Mem


class Layout:
    """A parametric object hierarchy: chain of types and the objects per level."""

    def __init__(self, chain, nets=("net1",), vms=("vm1",), images=None):
        self.chain = chain  # e.g. ("nets", "vms", "images")
        self.nets, self.vms = nets, vms
        self.images = images or {vm: ("image1",) for vm in vms}

    def base_params(self):
        p = {"states_chain": " ".join(self.chain), "nets": " ".join(self.nets), "vms": " ".join(self.vms)}
        for t in ("nets", "vms", "images"):
            p[f"states_{t}"] = "mem"
        for vm, ims in self.images.items():
            p[f"images_{vm}"] = " ".join(ims)
        p["images"] = " ".join(self.images[self.vms[0]])
        return p

    def objects(self):
        """All (object_type, object_name, address suffix, level) in the layout."""
        out = []
        chain = self.chain

        def typ(upto):
            return "/".join(chain[:chain.index(upto) + 1])

        if "nets" in chain:
            for n in self.nets:
                out.append((typ("nets"), n, f"_nets_{n}", "nets", ("nets", n)))
        if "vms" in chain:
            for n in (self.nets if "nets" in chain else (None,)):
                for vm in self.vms:
                    name = "/".join(x for x in (n, vm) if x)
                    suffix = f"_vms_{vm}" + (f"_{n}" if n and len(self.nets) > 1 else "")
                    out.append((typ("vms"), name, suffix, "vms", ("vms", vm)))
        if "images" in chain:
            for n in (self.nets if "nets" in chain else (None,)):
                for vm in (self.vms if "vms" in chain else (None,)):
                    for im in (self.images[vm] if vm else self.images[self.vms[0]]):
                        name = "/".join(x for x in (n, vm, im) if x)
                        suffix = f"_images_{im}" + (f"_{vm}" if vm else "")
                        out.append((typ("images"), name, suffix, "images", ("images", (vm or self.vms[0]) + "/" + im)))
        return out


def model_check(store, key, state, check_mode):
    """Reference for the root handling documented in the check policy; returns (exists | 'invalid', store changed in place)."""
    exists_root = key in store.roots
    if not exists_root:
        if check_mode[1] == "f":
            store.roots.add(key)
            exists_root = True
        elif check_mode[1] == "r":
            return False
        else:
            return "invalid"
    elif check_mode[0] == "f":
        store.states.pop(key, None)  # the object is recreated: its states are gone
        store.roots.add(key)
    if state in ROOTS:
        return exists_root
    return state in store.states.get(key, set())


def model_op(store, op, key, state, mode, check_mode):
    """Apply one operation on one object to the model; returns 'ok' | 'abort' | 'invalid' | True/False (for check)."""
    if op == "check":
        r = model_check(store, key, state, check_mode)
        return r
    exists = model_check(store, key, state, check_mode)
    if exists == "invalid":
        return "invalid"
    letter = mode[0] if exists else mode[1]
    action = TABLE[(op, bool(exists))].get(letter, "invalid")
    if action in ("abort", "invalid"):
        return action
    if action == "skip":
        return "ok"
    if op == "get":
        return "ok"
    if op == "set":
        if state in ROOTS:
            if action == "force":
                store.roots.discard(key)
                store.states.pop(key, None)
            store.roots.add(key)
        else:
            if action == "do" and key not in store.roots:
                return "invalid"  # a forced set on an object without a root is refused
            store.states.setdefault(key, set()).add(state)
        return "ok"
    if op == "unset":
        if state in ROOTS:
            store.roots.discard(key)
            store.states.pop(key, None)
        else:
            store.states.get(key, set()).discard(state)
        return "ok"
    raise AssertionError(op)


def run_real(ss, Mem, env, layout, store, op, addressed, extra=None):
    """Run the real operation with the given addressed objects [(suffix, state, mode)] on a copy of the store."""
    from avocado.core import exceptions
    from virttest.utils_params import Params

    p = layout.base_params()
    p.update(extra or {})
    pname = {"push": "push", "pop": "pop"}.get(op, op)
    for suffix, state, mode in addressed:
        p[f"{pname}_state{suffix}"] = state
        if mode is not None:
            p[f"{pname}_mode{suffix}"] = mode
    Mem.store = store
    Mem.calls = []
    result = None
    try:
        r = getattr(ss, f"{op}_states")(Params(p), env)
        result = r if op == "check" else "ok"
    except exceptions.TestAbortError:
        result = "abort"
    except exceptions.TestError:
        result = "invalid"
    except Exception as e:  # noqa: BLE001
        result = f"exception {type(e).__name__}: {e}"
    return result, list(Mem.calls)


def run(tier: str, seed: int) -> int:
    common.bootstrap("mini")
    from avocado_i2n.states import setup as ss

    rep = common.Report("C12", tier, seed, "bounded exhaustive cell enumeration + explicit-state BFS over call sequences on the real states.setup vs policy table and set model")
    rep.rule = ("cells = operation x 2 mode letters over {a,r,i,f,x} x state present/absent x root present/absent x root keyword/ordinary state x object level "
                "(nets/vms/images, chains of depth 1-3) x check mode x skip_types x readonly image x 1-3 vms with 1-2 images; sequences = BFS over (operation, object, "
                "state, mode) up to the depth bound from every initial store; distinct = distinct (cell) inputs plus distinct stores reached")
    Mem = make_backend()
    old_backends = ss.BACKENDS
    ss.BACKENDS = {"mem": Mem}
    env = mock.MagicMock()
    q = tier == "quick"
    try:
        # ---------------- depth 1: the policy table -------------------------------------------
        layouts = {
            "net/vm/image": Layout(("nets", "vms", "images")),
            "vm/image": Layout(("vms", "images")),
            "image": Layout(("images",)),
            "net/2vms/2images": Layout(("nets", "vms", "images"), vms=("vm1", "vm2"), images={"vm1": ("image1", "image2"), "vm2": ("image1",)}),
        }
        if not q:
            layouts["net/3vms"] = Layout(("nets", "vms", "images"), vms=("vm1", "vm2", "vm3"), images={"vm1": ("image1",), "vm2": ("image1", "image2"), "vm3": ("image1",)})
        check_modes = ["rr", "rf", "ff", "fr", "rx"] if not q else ["rr", "rf", "ff"]
        cells = 0
        for lname, layout in layouts.items():
            objs = layout.objects()
            all_keys = [k for _, _, _, _, k in objs]
            for (otype, oname, suffix, level, key) in objs:
                for op in ("get", "set", "unset"):
                    for m0, m1 in itertools.product(LETTERS, LETTERS):
                        mode = m0 + m1
                        for state in ("s1", "root") if q else ("s1", "root", "boot"):
                            for present, root in ((True, True), (False, True), (False, False)):
                                if state in ROOTS and present != root:
                                    continue
                                for cm in check_modes:
                                    if q and lname != "net/vm/image" and cm != "rr" and mode not in ("ra", "ff", "fi", "aa", "rf"):
                                        continue
                                    cells += 1
                                    init = Store({k: {"keep"} for k in all_keys}, all_keys)
                                    if not root:
                                        init.roots.discard(key)
                                        init.states.pop(key, None)
                                    if present and state not in ROOTS:
                                        init.states.setdefault(key, set()).add(state)
                                    model = init.copy()
                                    exp = model_op(model, op, key, state, mode, cm)
                                    real = init.copy()
                                    got, calls = run_real(ss, Mem, env, layout, real, op, [(suffix, state, mode)], {"check_mode": cm})
                                    inp = {"layout": lname, "object": list(key), "op": op, "mode": mode, "state": state, "state_present": present,
                                           "root_present": root, "check_mode": cm}
                                    rep.transitions += 1
                                    if got != exp:
                                        rep.violation(f"{op} {state} of {oname} with mode {mode} (state {'present' if present else 'absent'}, root {'present' if root else 'absent'}, "
                                                      f"check_mode {cm}): outcome {got}, documented {exp}", dict(inp, calls=[list(c) for c in calls]),
                                                      {"part": "table", "op": op, "expected": str(exp), "got": str(got)[:20], "root_state": state in ROOTS})
                                    elif real.key() != model.key():
                                        rep.violation(f"{op} {state} of {oname} with mode {mode} (check_mode {cm}): outcome {got} as documented but the store is "
                                                      f"{real.key()} instead of {model.key()}", dict(inp, calls=[list(c) for c in calls]),
                                                      {"part": "table-store", "op": op, "outcome": str(got), "root_state": state in ROOTS})
                                    touched = {c[1] for c in calls}
                                    if touched - {key}:
                                        rep.violation(f"{op} addressed only {oname} but the backend was called for {sorted(touched - {key})}", inp,
                                                      {"part": "untouched", "op": op})
                                    rep.distinct.add(("cell", lname, key, op, mode, state, present, root, cm))
                                    if cells in (5, 700, 4000):
                                        rep.sample(dict(inp, expected=str(exp), got=str(got), store_after=real.key()))
        rep.sections["table_cells"] = cells

        # ---------------- skip_types / readonly / unaddressed objects --------------------------
        c2 = 0
        layout = layouts["net/2vms/2images"]
        objs = layout.objects()
        all_keys = [k for _, _, _, _, k in objs]
        for skip in ("", "nets", "nets/vms", "nets/vms/images nets", "nets/vms/images", "nets nets/vms nets/vms/images"):
            # readonly given for one image, for every image of one vm, or for every image (the flag is an image attribute: vms and nets never are readonly)
            for ro in (None, "image1_vm1", "image2_vm1", "vm1", "vm2", "*"):
                for op in ("check", "get", "set", "unset"):
                    c2 += 1
                    init = Store({k: {"s1"} for k in all_keys}, all_keys)
                    extra = {"skip_types": skip, "check_mode": "rr"}
                    if ro == "*":
                        extra["image_readonly"] = "yes"
                    elif ro:
                        extra[f"image_readonly_{ro}"] = "yes"

                    def is_ro(otype_, oname_):
                        if not ro or otype_ != "nets/vms/images":
                            return False
                        if ro == "*":
                            return True
                        if ro.startswith("vm"):
                            return oname_.split("/")[-2] == ro
                        return oname_.endswith("/".join(reversed(ro.split("_"))))
                    # address every object with a harmless row (present state, reuse/force)
                    mode = {"check": None, "get": "ri", "set": "ff", "unset": "fi"}[op]
                    addressed = [(sfx, "s1", mode) for (_, _, sfx, _, _) in objs]
                    real = init.copy()
                    got, calls = run_real(ss, Mem, env, layout, real, op, addressed, extra)
                    model = init.copy()
                    skipped_types = set(skip.split())
                    for (otype, oname, sfx, level, key) in objs:
                        if otype in skipped_types:
                            continue
                        if is_ro(otype, oname):
                            continue
                        if op != "check":
                            model_op(model, op, key, "s1", mode, "rr")
                    touched = {c[1] for c in calls}
                    forbidden = {k for (t, n, _, _, k) in objs if t in skipped_types or is_ro(t, n)}
                    rep.transitions += 1
                    inp = {"op": op, "skip_types": skip, "readonly": ro}
                    required = {k for (t, n, _, _, k) in objs} - forbidden
                    if op != "check" and required - touched:
                        rep.violation(f"{op} with skip_types={skip!r} readonly={ro}: objects {sorted(required - touched)} were addressed and are neither skipped nor readonly "
                                      f"but the backend was never asked for them", inp, {"part": "skip-missed", "op": op})
                    if touched & forbidden:
                        rep.violation(f"{op} with skip_types={skip!r} readonly={ro}: backend called for skipped objects {sorted(touched & forbidden)}", inp,
                                      {"part": "skip", "op": op})
                    if got not in ("ok", True) or real.key() != model.key():
                        rep.violation(f"{op} with skip_types={skip!r} readonly={ro}: outcome {got}, store {real.key()} expected {model.key()}", inp,
                                      {"part": "skip-store", "op": op})
                    rep.distinct.add(("skip", skip, ro, op))
        rep.sections["skip_cells"] = c2

        # ---------------- one call addressing several objects, each with its own policy and presence -------------
        c3 = 0
        layout = layouts["net/2vms/2images"]
        objs = [o for o in layout.objects() if o[3] in ("vms", "images")]
        all_keys = [k for _, _, _, _, k in layout.objects()]
        groups = list(itertools.combinations(range(len(objs)), 2))
        if not q:
            groups += list(itertools.combinations(range(len(objs)), 3))
        letters3 = "arif" if q else LETTERS
        for grp in groups:
            per_obj = [(pres, let) for pres in (True, False) for let in letters3]
            if len(grp) == 3:
                per_obj = [(pres, let) for pres in (True, False) for let in "arf"]
            for op in ("get", "set", "unset"):
                for combo in itertools.product(per_obj, repeat=len(grp)):
                    c3 += 1
                    init = Store({k: {"keep"} for k in all_keys}, all_keys)
                    addressed, singles = [], []
                    for gi, (pres, let) in zip(grp, combo):
                        _, oname, sfx, _, key = objs[gi]
                        if pres:
                            init.states[key].add("s1")
                        addressed.append((sfx, "s1", let * 2))
                    for gi, (pres, let) in zip(grp, combo):
                        key = objs[gi][4]
                        scratch = init.copy()
                        singles.append((key, model_op(scratch, op, key, "s1", let * 2, "rr"), scratch))
                    real = init.copy()
                    got, calls = run_real(ss, Mem, env, layout, real, op, addressed, {"check_mode": "rr"})
                    rep.transitions += 1
                    bad = [o for _, o, _ in singles if o in ("abort", "invalid")]
                    inp = {"layout": "net/2vms/2images", "op": op, "objects": [[objs[gi][1], pres, let * 2] for gi, (pres, let) in zip(grp, combo)]}
                    sig = {"part": "multi-object", "op": op, "n": len(grp)}
                    if bad:
                        if got not in bad:
                            rep.violation(f"{op} on {inp['objects']} (object, state present, mode): outcome {got}, the rows of the policy table give {bad}", inp,
                                          dict(sig, kind="outcome", expected=bad[0]))
                        else:
                            # objects whose row aborts must be unchanged; the others are either handled or not reached
                            for key, o, scratch in singles:
                                after = sorted(real.states.get(key, set()))
                                allowed = [sorted(init.states.get(key, set()))] + ([sorted(scratch.states.get(key, set()))] if o == "ok" else [])
                                if after not in allowed:
                                    rep.violation(f"{op} on {inp['objects']}: aborted, but the states of {list(key)} are {after}, allowed {allowed}", inp,
                                                  dict(sig, kind="abort-store"))
                    else:
                        model = init.copy()
                        for key, o, scratch in singles:
                            model.states[key] = set(scratch.states.get(key, set()))
                        if got != "ok":
                            rep.violation(f"{op} on {inp['objects']} (object, state present, mode): outcome {got}, every row of the policy table gives ok", inp,
                                          dict(sig, kind="outcome", expected="ok"))
                        elif real.key() != model.key():
                            rep.violation(f"{op} on {inp['objects']} (object, state present, mode): store is {real.key()}, each object's own row gives {model.key()}",
                                          inp, dict(sig, kind="store"))
                    touched = {c[1] for c in calls}
                    extra_touched = touched - {objs[gi][4] for gi in grp}
                    if extra_touched:
                        rep.violation(f"{op} addressed {inp['objects']} but the backend was called for {sorted(extra_touched)}", inp, dict(sig, kind="untouched"))
                    rep.distinct.add(("multi", op, grp, combo))
                    if c3 in (11, 900):
                        rep.sample(dict(inp, got=str(got), store_after=real.key()))
        rep.sections["multi_object_cells"] = c3

        # ---------------- ordinary state names that merely resemble the root keywords ----------------------------
        c4 = 0
        layout = layouts["vm/image"]
        names = ["reboot", "chroot", "first_boot", "root_fs", "bootstrap", "xroot", "boot2", "Root", "0rootx", "root.1"] if not q else ["reboot", "chroot", "bootstrap", "root_fs"]
        nobjs = [o for o in layout.objects() if o[3] in ("vms", "images")]
        nkeys = [k for _, _, _, _, k in layout.objects()]
        for (otype, oname, sfx, level, okey) in nobjs:
            for name in names:
                for op, modes in (("get", ("ra", "ii")), ("set", ("ff", "af")), ("unset", ("fi", "fa")), ("check", (None,)), ("push", ("af", "ff")), ("pop", ("ra", "fa"))):
                    for mode in modes:
                        for present in (True, False):
                            c4 += 1
                            init = Store({k: {"keep"} for k in nkeys}, nkeys)
                            if present:
                                init.states[okey].add(name)
                            model, real = init.copy(), init.copy()
                            if op in ("push", "pop"):
                                exp = model_pushpop(model, op, okey, name, mode)
                            else:
                                exp = model_op(model, op, okey, name, mode or "xx", "rf")
                            got, calls = run_real(ss, Mem, env, layout, real, op, [(sfx, name, mode)], {})
                            rep.transitions += 1
                            if got != exp or real.key() != model.key():
                                rep.violation(f"{op} of the ordinary state {name!r} of {oname} (mode {mode}, state {'present' if present else 'absent'}): outcome {got} store {real.key()}; "
                                              f"the policy table gives {exp} store {model.key()}",
                                              {"op": op, "object": list(okey), "state": name, "mode": mode, "present": present, "calls": [list(c) for c in calls]},
                                              {"part": "state-names", "op": op, "expected": str(exp), "got": str(got)[:20]})
                            rep.distinct.add(("name", okey, name, op, mode, present))
        rep.sections["state_name_cells"] = c4

        # ---------------- sequences: BFS from every initial store ------------------------------
        depth = 2 if q else 3
        layout = layouts["vm/image"] if q else layouts["net/vm/image"]
        objs = [o for o in layout.objects() if o[3] in ("vms", "images")]
        keys = [k for _, _, _, _, k in objs]
        alphabet = []
        for (otype, oname, sfx, level, okey) in objs:
            for op, modes in (("get", ("ra", "ii")), ("set", ("ff", "ra", "af")), ("unset", ("fi", "ra")), ("check", (None,)), ("push", ("af",)), ("pop", ("ra",))):
                for st in (("s1", "s2") if level == "images" else ("s1",)):
                    for mode in modes:
                        alphabet.append((op, okey, sfx, st, mode))
            alphabet.append(("unset", okey, sfx, "root", "fi"))
            alphabet.append(("set", okey, sfx, "root", "af"))
        initial = []
        for roots_present in itertools.product((True, False), repeat=len(keys)):
            for s1 in itertools.product((True, False), repeat=len(keys)):
                st = Store()
                ok = True
                for k, r, has in zip(keys, roots_present, s1):
                    if r:
                        st.roots.add(k)
                    if has:
                        if not r:
                            ok = False
                        st.states[k] = {"s1"}
                if ok:
                    initial.append(st)
        seen = {}
        frontier = collections.deque()
        for st in initial:
            seen[st.key()] = st
            frontier.append((st, 0))
        seq_trans = 0
        while frontier:
            st, d = frontier.popleft()
            if d >= depth:
                continue
            for (op, key, sfx, state, mode) in alphabet:
                model = st.copy()
                real = st.copy()
                if op in ("push", "pop"):
                    exp = model_pushpop(model, op, key, state, mode)
                else:
                    exp = model_op(model, op, key, state, mode or "xx", "rf")
                got, calls = run_real(ss, Mem, env, layout, real, op, [(sfx, state, mode)], {})
                seq_trans += 1
                rep.transitions += 1
                if got != exp or real.key() != model.key():
                    rep.violation(f"from store {st.key()}: {op} {state} of {key[1]} mode {mode}: outcome {got} store {real.key()}; model says {exp} store {model.key()}",
                                  {"from": st.key(), "op": op, "object": list(key), "state": state, "mode": mode, "calls": [list(c) for c in calls]},
                                  {"part": "sequence", "op": op, "expected": str(exp), "got": str(got)[:20]})
                    continue
                k2 = real.key()
                if k2 not in seen:
                    seen[k2] = real
                    frontier.append((real, d + 1))
        rep.sections["sequence"] = {"stores": len(seen), "transitions": seq_trans, "depth": depth, "alphabet": len(alphabet), "initial_stores": len(initial)}
        rep.states = len(seen) + cells + c2
        for k in seen:
            rep.distinct.add(("store", k))
        rep.sample({"sequence_alphabet_example": [str(a) for a in alphabet[:4]], "initial_store": initial[1].key()})
    finally:
        ss.BACKENDS = old_backends
    rep.evaluations = rep.transitions
    rep.traces_validated = rep.transitions
    rep.bounds = {"mode_letters": LETTERS, "check_modes": check_modes, "sequence_depth": depth}
    rep.assumptions = ["the reference table is the README policy table completed by the root rules the code documents in its messages: check_mode second letter "
                       "(root missing: f create / r report absent / else invalid), first letter (root present: f re-create), and 'a forced set without a root is refused'",
                       "root handling requested by the check mode is part of the documented action, not an alteration by an aborting operation",
                       "cells that can abort address a single object so that no iteration order is asserted"]
    return rep.finish()


def model_pushpop(store, op, key, state, mode):
    if state in ROOTS:
        return "ok"
    if op == "push":
        return model_op(store, "set", key, state, mode or "af", "rf")
    r = model_op(store, "get", key, state, mode or "ra", "rf")
    if r != "ok":
        return r
    # pop: get then unset with the same pop_mode (second default 'fa' only applies when pop_mode is unset)
    return model_op(store, "unset", key, state, mode or "fa", "rf")


def replay(path: str) -> int:
    print(open(path).read())
    return 0
