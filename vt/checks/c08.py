"""C08 — tests run only on their own worker and are told where their setup lives (E1)."""
from vt.e1 import checkbase, monitors, scenarios as S

TECH = "stateless deviation-bounded exploration of the real traversal (virtual-time scheduler) with per-start parameter oracle (worker identity, restrictions, source locations)"


def plan(tier):
    q = tier == "quick"
    p = []
    p.append((S.T2(), 2 if q else 3, 3))
    p.append((S.T2("net1 net2 net3"), 1 if q else 2, 2))
    p.append((S.T3(), 1 if q else 2, 2))
    p.append((S.T13(), 1 if q else 2, 2))
    p.append((S.T2("net1 net3 net5", vm_strs={"vm1": "", "vm2": "only Win10\n", "vm3": "only Ubuntu\n"}).variant("/restricted,vm1=any"), 1, 2))
    p.append((S.T3("net3 net5", vm_strs={"vm1": "", "vm2": "", "vm3": "only Ubuntu\n"}).variant("/restricted,vm1=any,vm2=any"), 0 if q else 1, 2))
    p.append((S.T2("cluster1.net6 cluster1.net7 cluster2.net6").variant("/clusters"), 1 if q else 2, 2))
    p.append((S.T2("cluster1.net6 cluster1.net7 cluster2.net6", params={"pool_scope": "own swarm shared"}).variant("/clusters,scope=own+swarm+shared"), 1 if q else 2, 2))
    p.append((S.T2(params={"max_tries": 2}).variant("/mt=2"), 1 if q else 2, 2))
    p.append((S.T2(params={"max_tries": 2, "max_concurrent_tries": 2}, O=("PASS", "FAIL", "WARN", "SKIP")).variant("/mt=2,mct=2,O=4"), 1 if q else 2, 2))
    p.append((S.T2(params={"pool_scope": "own shared"}).variant("/scope=own+shared"), 1 if q else 2, 1))
    p.append((S.T2(O=("PASS", "FAIL", "WARN", "SKIP", "ERROR")).variant("/O=5"), 1 if q else 2, 2))
    p.append((S.replay_of(S.T2(), "all passed, pools empty"), 1, 1))
    p.append((S.replay_of(S.T2(), "all passed, shared=chain", shared=S.VM1_CHAIN), 1, 1))
    # several replayed jobs: the setup passed in the first one, the leaves ran in the second one
    p.append((S.replay_of(S.T2(), "all passed, shared=chain", jobs=2, shared=S.VM1_CHAIN), 1, 1))
    p.append((S.replay_of(S.T2(), "leaves failed, own pools keep the setup", jobs=2, status_of=lambda n: "FAIL" if ".tutorial" in n else "PASS",
                          own={"net1": S.VM1_CHAIN, "net2": S.VM1_CHAIN}), 1, 1))
    # workers bound to runtime slots (container / serial / remote): the slot's connection parameters must reach every test of that worker
    for nets, slots in (("net1 net2", "5 "), ("net1 net2", "5 7"), ("net1 net2 net3", "1 2 3"), ("net1 net2", "gw1.lan/1 gw1.lan/2"),
                        ("cluster1.net6 net2", "5 7"), ("cluster1.net6 cluster1.net7", "c1.lan/1 c1.lan/2"), ("net1 net2 net3", "5 7")):
        p.append((S.T2(nets, params={"slots": slots}).variant(f"/slots={slots!r}"), 1, 1))
        p.append((S.T2(nets, params={"slots": slots}, lazy=True).variant(f"/lazy,slots={slots!r}"), 0 if q else 1, 1))
    p.append((S.G1(), 0 if q else 1, 3))
    p.append((S.T1("net0").variant("/serial"), 1, 0.5))
    # COMPLETE enumeration (no deviation bound): every duration / outcome / tie-order sequence of small graphs
    p.append((S.T1(shared=S.VM1_CHAIN[:2]).variant("/shared=install+customize,ALL-SCHEDULES"), 99, 0.5))
    p.append((S.T1("net1 net2 net3", shared=S.VM1_CHAIN[:2]).variant("/shared=install+customize,ALL-SCHEDULES"), 99, 0.5))
    p.append((S.T1(shared=S.VM1_CHAIN[:1]).variant("/shared=install,ALL-SCHEDULES"), 99, 1))
    p.append((S.T2(shared=S.VM1_CHAIN[:2]).variant("/shared=install+customize,ALL-SCHEDULES"), 99, 1))
    if not q:
        p.append((S.T2(shared=S.VM1_CHAIN[:1]).variant("/shared=install,ALL-SCHEDULES"), 99, 4))
    # configuration matrix: worker kinds x reuse scopes x slot bindings (same selection, default schedule and single deviations)
    p += S.config_matrix(S.T2, tier)
    return p


def run(tier, seed):
    return checkbase.run_e1("C08", tier, seed, TECH, (lambda: plan(tier)), monitors.c08m, 420, 2400,
                            "executions = complete runs of the real traversal, one per choice sequence (durations, outcomes, tie order) with at most k "
                            "non-default choices over worker sets with mixed restrictions, swarms and clusters; distinct = distinct (scenario, "
                            "(worker,test,status) sequence)",
                            ["a worker 'produced' a state when an execution of a test setting it ended PASS on that worker in this run (or a replayed previous result says so)"])


def replay(path):
    return checkbase.replay_e1(path, monitors.c08m)
