"""C05 — states are removed only after every dependant finished, and only if asked (E1)."""
from vt.e1 import checkbase, monitors, scenarios as S
from vt.e1.engine import Scenario

TECH = "stateless deviation-bounded exploration of the real traversal (virtual-time scheduler) with post-hoc removal/dependant oracle on the world trace"


def GG(nets="net1 net2", lazy=True, **kw):
    return Scenario("GG:noop-chain:" + nets.replace(" ", "+") + ("/lazy" if lazy else "/eager"),
                    "leaves..tutorial_gui.client_noop,leaves..tutorial_get.explicit_noop", nets, lazy=lazy, **kw)


def plan(tier):
    q = tier == "quick"
    p = []
    for lazy in (True, False):
        p.append((S.G1(lazy=lazy), 1 if q else 2, 3))
        p.append((GG(lazy=lazy), 1 if q else 2, 3))
    p.append((S.G2(), 0 if q else 1, 3))
    p.append((S.G2(lazy=False), 0 if q else 1, 3))
    p.append((S.G1("net1 net2 net3"), 0 if q else 1, 2))
    p.append((S.G1("net1"), 1 if q else 2, 1))
    # settings
    p.append((S.G1(params={"pool_filter": "copy"}).variant("/pool_filter=copy"), 0 if q else 1, 1))
    p.append((S.G1(params={"pool_filter": "block"}).variant("/pool_filter=block"), 0 if q else 1, 1))
    p.append((GG(params={"max_tries": 2}).variant("/mt=2"), 0 if q else 1, 2))
    p.append((S.G1(params={"max_tries": 2}).variant("/mt=2"), 0 if q else 1, 2))
    p.append((S.G1(params={"unset_mode_vm2": "fi"}).variant("/unset_mode_vm2=fi"), 0 if q else 1, 1))
    p.append((S.G1(params={"unset_mode_vm2": "fi", "max_tries": 2}).variant("/unset_mode_vm2=fi,mt=2"), 1 if q else 2, 2))
    p.append((S.G1(params={"unset_mode": "fi"}).variant("/unset_mode=fi"), 0 if q else 1, 1))
    p.append((S.G1(params={"unset_mode_images_vm2": "ri"}).variant("/unset_mode_images_vm2=ri"), 0 if q else 1, 1))
    # setup that is not marked for removal must stay whatever happens (plain chains)
    p.append((S.T2(), 1 if q else 2, 1))
    p.append((S.T3(), 1, 1))
    return p


def run(tier, seed):
    return checkbase.run_e1("C05", tier, seed, TECH, (lambda: plan(tier)), monitors.c05, 300, 1800,
                            "executions = complete runs of the real traversal over graphs with removable (unset_mode f.) states, one per choice sequence "
                            "(durations, PASS/FAIL outcomes, tie order) with at most k non-default choices, lazy and eager parsing, unset_mode/pool_filter/"
                            "retry settings; distinct = distinct (scenario, (worker,test,status) sequence)",
                            ["a removal is the `unset` state-control request issued by the traversal; its effect is applied to the requesting worker's own pool",
                             "'pending' is decided post hoc on the complete trace: a dependant that starts after the removal without a re-creation in between"])


def replay(path):
    return checkbase.replay_e1(path, monitors.c05)
