"""C05 — states are removed only after every dependant finished, and only if asked (E1)."""
from vt.e1 import checkbase, monitors, scenarios as S
from vt.e1.engine import Scenario

TECH = "stateless deviation-bounded exploration of the real traversal (virtual-time scheduler) with post-hoc removal/dependant oracle on the world trace"


def GG(nets="net1 net2", lazy=True, **kw):
    return Scenario("GG:noop-chain:" + nets.replace(" ", "+") + ("/lazy" if lazy else "/eager"),
                    "leaves..tutorial_gui.client_noop,leaves..tutorial_get.explicit_noop", nets, lazy=lazy, **kw)


def plan(tier):
    q = tier == "quick"
    p = []
    v1 = [("image1_vm1", "install"), ("image1_vm1", "customize"), ("image1_vm1", "linux_virtuser")]
    v2 = [("image1_vm2", "install"), ("image1_vm2", "customize"), ("image1_vm2", "windows_virtuser")]
    for lazy in (True, False):
        p.append((S.G1(lazy=lazy), 1 if q else 2, 3))
        p.append((GG(lazy=lazy), 1 if q else 2, 3))
    p.append((S.G2(), 0 if q else 1, 3))
    p.append((S.G2(lazy=False), 0 if q else 1, 3))
    # histories: setup left by earlier runs in the shared pool (every downward-closed subset of the two vms' setup chains)
    v1 = [("image1_vm1", "install"), ("image1_vm1", "customize"), ("image1_vm1", "linux_virtuser")]
    v2 = [("image1_vm2", "install"), ("image1_vm2", "customize"), ("image1_vm2", "windows_virtuser")]
    for i in range(0, 4):
        for j in range(0, 4):
            if i == 0 and j == 0:
                continue
            if q and (i, j) not in ((3, 3), (2, 2), (3, 0), (0, 3), (1, 1)):
                continue
            for lazy in (True, False):
                p.append((GG(lazy=lazy, shared=v1[:i] + v2[:j]).variant(f"/shared=vm1[:{i}]+vm2[:{j}]"), 1 if q else 2, 0.5))
            p.append((S.G1(shared=v1[:i] + v2[:j]).variant(f"/shared=vm1[:{i}]+vm2[:{j}]"), 0 if q else 1, 0.5))
    p.append((S.G1("net1 net2 net3"), 0 if q else 1, 2))
    # remote workers of one cluster swarm, and of two clusters
    p.append((GG("cluster2.net6 cluster2.net7"), 1 if q else 2, 2))
    p.append((GG("cluster2.net6 cluster2.net7", shared=v1 + v2).variant("/shared=setup"), 1 if q else 2, 1))
    p.append((S.G1("cluster1.net6 cluster2.net6"), 0 if q else 1, 1))
    # producer and dependant in different clusters (reuse across clusters is part of the default scope)
    p.append((GG("cluster1.net6 cluster2.net6", shared=v1 + v2).variant("/shared=setup"), 1 if q else 2, 1))
    p.append((GG("cluster1.net6 cluster1.net7 cluster2.net6", shared=v1 + v2, D=(1.0, 3.0)).variant("/shared=setup"), 1 if q else 2, 1))
    p.append((GG("cluster1.net6 cluster1.net7 cluster2.net6", params={"pool_scope": "own swarm cluster"}).variant("/scope=own+swarm+cluster"), 0 if q else 1, 1))
    # an unrelated quick test keeps one worker busy, which then meets the producer as a bystander while the dependant runs elsewhere
    v1all = v1 + [("image1_vm1", "connect"), ("vm1", "on_customize")]
    three = "leaves..tutorial1,leaves..tutorial_gui.client_noop,leaves..tutorial_get.explicit_noop"
    for nets in ("net1 net2", "cluster2.net6 cluster2.net7"):
        p.append((Scenario("G3t:" + nets.replace(" ", "+") + "/lazy", three, nets, lazy=True, D=(1.0, 5.0), shared=v1all + v2).variant("/shared=setup"), 1 if q else 2, 1))
        p.append((Scenario("G3t:" + nets.replace(" ", "+") + "/lazy", three, nets, lazy=True, D=(1.0, 5.0)), 0 if q else 1, 1))
    p.append((S.G1("net1"), 1 if q else 2, 1))
    # settings
    p.append((S.G1(params={"pool_filter": "copy"}).variant("/pool_filter=copy"), 0 if q else 1, 1))
    p.append((S.G1(params={"pool_filter": "block"}).variant("/pool_filter=block"), 0 if q else 1, 1))
    p.append((GG(params={"max_tries": 2}).variant("/mt=2"), 0 if q else 1, 2))
    p.append((S.G1(params={"max_tries": 2}).variant("/mt=2"), 0 if q else 1, 2))
    p.append((S.G1(params={"unset_mode_vm2": "fi"}).variant("/unset_mode_vm2=fi"), 0 if q else 1, 1))
    p.append((S.G1(params={"unset_mode_vm2": "fi", "max_tries": 2}).variant("/unset_mode_vm2=fi,mt=2"), 1 if q else 2, 2))
    p.append((S.G1(params={"unset_mode": "fi"}).variant("/unset_mode=fi"), 0 if q else 1, 1))
    p.append((S.G1(params={"unset_mode_images_vm2": "ri"}).variant("/unset_mode_images_vm2=ri"), 0 if q else 1, 1))
    # configuration matrix: worker kinds x reuse scopes x slot bindings on the removable chain (setup in the shared pool)
    p += S.config_matrix(lambda nets, **kw: GG(nets, shared=v1 + v2, **kw), tier, k_quick=0, k_thorough=1)
    p += S.config_matrix(lambda nets, **kw: GG(nets, lazy=False, shared=v1 + v2, **kw), tier, k_quick=0, k_thorough=1)
    # setup that is not marked for removal must stay whatever happens (plain chains)
    p.append((S.T2(), 1 if q else 2, 1))
    p.append((S.T3(), 1, 1))
    return p


def run(tier, seed):
    return checkbase.run_e1("C05", tier, seed, TECH, (lambda: plan(tier)), monitors.c05, 480, 2400,
                            "executions = complete runs of the real traversal over graphs with removable (unset_mode f.) states, one per choice sequence "
                            "(durations, PASS/FAIL outcomes, tie order) with at most k non-default choices, lazy and eager parsing, unset_mode/pool_filter/"
                            "retry settings; distinct = distinct (scenario, (worker,test,status) sequence)",
                            ["a removal is the `unset` state-control request issued by the traversal; its effect is applied to the requesting worker's own pool",
                             "'pending' is decided post hoc on the complete trace: a dependant that starts after the removal without a re-creation in between"])


def replay(path):
    return checkbase.replay_e1(path, monitors.c05)
