"""C01 — every test starts only with its required object states available (E1)."""
import itertools

from vt.e1 import checkbase, monitors, scenarios as S

TECH = "stateless deviation-bounded exploration of the real traversal (virtual-time scheduler) against a world model of the state pools"


def plan(tier):
    q = tier == "quick"
    p = []
    p.append((S.T1(), 1 if q else 3, 1))
    p.append((S.T2(), 2 if q else 3, 3))
    p.append((S.T2("net1 net2 net3"), 1 if q else 2, 2))
    p.append((S.T3(), 1 if q else 2, 3))
    p.append((S.T13(), 1 if q else 2, 2))
    p.append((S.T3(lazy=True).variant("/lazy"), 1, 2))
    # other vm variants: both vms of the two-object test then need equally named setup
    fed = {"vm1": "only Fedora\n", "vm2": "only Win10\n", "vm3": "only Ubuntu\n"}
    p.append((S.T3(vm_strs=fed).variant("/vm1=Fedora"), 1, 1))
    p.append((S.T3("net1", vm_strs={"vm1": "only Fedora\n", "vm2": "only Win7\n", "vm3": "only Ubuntu\n"}).variant("/vm1=Fedora,vm2=Win7"), 1, 0.5))
    p.append((S.T13(vm_strs={"vm1": "", "vm2": "only Win10\n", "vm3": "only Ubuntu\n"}).variant("/vm1=any"), 0 if q else 1, 1))
    p.append((S.T2("cluster1.net6 cluster1.net7 cluster2.net6").variant("/clusters"), 1 if q else 2, 2))
    p.append((S.T2("net1 net3 net5", vm_strs={"vm1": "", "vm2": "only Win10\n", "vm3": "only Ubuntu\n"}).variant("/restricted,vm1=any"), 0 if q else 1, 2))
    # pool scopes: narrowed reuse (each lxc worker / each cluster on its own) with and without setup left in the shared pool
    for scope in ("own shared", "own", "own swarm shared", "own cluster shared"):
        p.append((S.T2(params={"pool_scope": scope}).variant(f"/scope={scope.replace(' ', '+')}"), 1 if q else 2, 1))
        p.append((S.T2(params={"pool_scope": scope}, shared=S.VM1_CHAIN[:1]).variant(f"/scope={scope.replace(' ', '+')},shared=install"), 2 if q else 3, 1))
    p.append((S.T2("cluster1.net6 cluster1.net7 cluster2.net6", params={"pool_scope": "own swarm shared"}).variant("/clusters,scope=own+swarm+shared"), 1 if q else 2, 1))
    p.append((S.T2("cluster1.net6 cluster2.net6", params={"pool_scope": "own shared"}, shared=S.VM1_CHAIN[:1]).variant("/clusters,scope=own+shared,shared=install"), 1 if q else 2, 1))
    # histories: every subset of the producible vm1 states in the shared pool (T2) ...
    for r in range(1, 4):
        for sub in itertools.combinations(S.VM1_CHAIN, r):
            tag = "+".join(st for _, st in sub)
            p.append((S.T2(shared=sub).variant(f"/shared={tag}"), 1 if q else 2, 0.5))
    # ... of the vm1/vm2 image states for the two-object test (downward closed subsets in quick)
    t3_states = [("image1_vm1", "install"), ("image1_vm1", "customize"), ("image1_vm1", "connect"), ("image1_vm2", "install"), ("image1_vm2", "customize")]
    for r in range(1, 6):
        for sub in itertools.combinations(t3_states, r):
            closed = all((("image1_vm1", "install") in sub or o != "image1_vm1" or s == "install") and
                         (("image1_vm2", "install") in sub or o != "image1_vm2" or s == "install") for o, s in sub)
            if q and not closed:
                continue
            tag = "+".join(f"{o[-3:]}.{st}" for o, st in sub)
            p.append((S.T3(shared=sub).variant(f"/shared={tag}"), 0 if q else 1, 0.3))
    # residue of an interrupted run in one worker's own pool (placements of <=2 states)
    for w in ("net1", "net2"):
        for r in (1, 2):
            for sub in itertools.combinations(S.VM1_CHAIN, r):
                tag = "+".join(st for _, st in sub)
                p.append((S.T2(own={w: sub}).variant(f"/own({w})={tag}"), 0 if q else 1, 0.3))
    p.append((S.T3(shared=[("image1_vm1", "install"), ("image1_vm1", "customize")], own={"net2": [("image1_vm1", "connect")]}).variant("/shared=vm1.install+customize,own(net2)=connect"), 1, 0.5))
    # retry settings under which an in-flight try of another worker is neither a reason to run nor to rerun
    p.append((S.T2(params={"max_tries": 2, "rerun_status": "fail"}).variant("/mt=2,rerun=fail"), 1 if q else 2, 1))
    p.append((S.T2(params={"max_tries": 2}).variant("/mt=2"), 1 if q else 2, 1))
    # replay of a previous job whose states were cleaned up / partly kept / produced elsewhere
    p.append((S.replay_of(S.T2(), "all passed, pools empty"), 1 if q else 2, 1))
    p.append((S.replay_of(S.T2(), "all passed, shared=install+customize", shared=S.VM1_CHAIN[:2]), 1, 1))
    p.append((S.replay_of(S.T2(), "all passed, own(net1)=chain", own={"net1": S.VM1_CHAIN}), 1, 1))
    p.append((S.replay_of(S.T2(), "setup failed before, pools empty", status_of=lambda n: "FAIL" if "customize" in n else "PASS"), 1, 1))
    # residue of a run killed at any event boundary: the pools such a run leaves are the initial pools of a fresh run
    for r_scn in S.crash_residues(S.T2(), deviations=not q, limit=12 if q else 60):
        p.append((r_scn, 0 if q else 1, 0.3))
    for r_scn in S.crash_residues(S.T3(), deviations=False, limit=8 if q else 20):
        p.append((r_scn, 0 if q else 1, 0.3))
    p.append((S.G1(), 0 if q else 1, 3))
    p.append((S.G2(), 0 if q else 1, 3))
    # states marked for removal after use ("... or recreated after a cleanup"): producer and dependant selected together, setup in the shared pool
    from vt.checks.c05 import GG

    v12 = [("image1_vm1", "install"), ("image1_vm1", "customize"), ("image1_vm1", "linux_virtuser"),
           ("image1_vm2", "install"), ("image1_vm2", "customize"), ("image1_vm2", "windows_virtuser")]
    for lazy in (True, False):
        p.append((GG(lazy=lazy, shared=v12).variant("/shared=setup"), 1 if q else 2, 1))
        p.append((GG(lazy=lazy, shared=v12, params={"pool_scope": "own shared"}).variant("/shared=setup,scope=own+shared"), 0 if q else 1, 0.5))
    # COMPLETE enumeration (no deviation bound): every duration / outcome / tie-order sequence of small graphs
    p.append((S.T1(shared=S.VM1_CHAIN[:2]).variant("/shared=install+customize,ALL-SCHEDULES"), 99, 0.5))
    p.append((S.T1("net1 net2 net3", shared=S.VM1_CHAIN[:2]).variant("/shared=install+customize,ALL-SCHEDULES"), 99, 0.5))
    p.append((S.T1(shared=S.VM1_CHAIN[:1]).variant("/shared=install,ALL-SCHEDULES"), 99, 1))
    p.append((S.T2(shared=S.VM1_CHAIN[:2]).variant("/shared=install+customize,ALL-SCHEDULES"), 99, 1))
    if not q:
        p.append((S.T2(shared=S.VM1_CHAIN[:1]).variant("/shared=install,ALL-SCHEDULES"), 99, 4))
    # every pair of run settings on a setup + leaf selection
    p += S.settings_pairs(lambda **kw: S.T1(shared=S.VM1_CHAIN[:2], D=(1.0, 3.0), **kw), tier)
    # configuration matrix: worker kinds x reuse scopes x slot bindings (same selection, default schedule and single deviations)
    p += S.config_matrix(S.T2, tier)
    p += [(scn.variant(",lazy"), k, w) for scn, k, w in S.config_matrix(lambda nets, **kw: S.T3(nets, lazy=True, **kw), tier, k_quick=0, k_thorough=1)]
    return p


def matcher(known, v):
    sig = known.get("signature", {})
    return bool(sig) and all(v.signature.get(k) == val for k, val in sig.items())


def run(tier, seed):
    return checkbase.run_e1("C01", tier, seed, TECH, (lambda: plan(tier)), monitors.c01, 600, 2400,
                            "executions = complete runs of the real traversal, one per choice sequence (durations, PASS/FAIL outcomes = placement of failing tests, "
                            "tie order) with at most k non-default choices, from each enumerated initial population of the shared and own pools; "
                            "distinct = distinct (scenario incl. initial pools, (worker,test,status) sequence)",
                            ["a test is modelled by the world: it PASSes only if its required states are reachable through its own pool or a named, scope-enabled location",
                             "state files are atomic (a killed run leaves whole states or nothing)"], matcher)


def replay(path):
    return checkbase.replay_e1(path, monitors.c01)
