"""C20 — manual steps act once per selected vm and worker, in the given order (E1 over the Manu entry point)."""
from __future__ import annotations

import itertools
import json

from vt import common

STATE_STEPS = ["check", "get", "set", "unset", "push", "pop"]
VM_STEPS = {"boot": "boot", "shutdown": "shutdown", "download": "download", "upload": "upload", "control": "run"}
# object-level steps built on a state step with fixed parameters: step -> (state step it reuses, state it addresses)
ROOT_STEPS = {"collect": ("get", "root"), "create": ("set", "root"), "clean": ("unset", "root")}
DEFAULT_VARIANT = {"vm1": "CentOS", "vm2": "Win10", "vm3": "Ubuntu"}
# worker restrictions as written in nets.cfg (transcribed, not read through the code under test)
WORKER_RESTR = {"net3": {"vm1": ("only", ["CentOS", "Fedora"]), "vm2": ("no", ["WinXP", "Win8"])},
                "net5": {"vm1": ("only", ["Fedora"]), "vm2": ("no", ["Win7"])}}


def compatible(worker, vm):
    r = WORKER_RESTR.get(worker, {}).get(vm)
    if r is None:
        return True
    kind, variants = r
    return (DEFAULT_VARIANT[vm] in variants) == (kind == "only")


def analyse(case):
    from avocado_i2n.plugins.manu import Manu
    from vt.e1 import engine, tools

    chain, vms, nets, prefix = case["chain"], case["vms"], case["nets"], case.get("prefix", [])
    args = [f"setup={','.join(chain)}", f"vms={','.join(vms)}", f"nets={','.join(nets)}"]
    for op in ("check", "get", "set", "unset", "push", "pop"):
        args.append(f"{op}_state_images=st_{op}")
    user = case.get("user") or {}
    if "get_mode" not in user:
        args.append("get_mode=ri")
    args += [f"{k}={v}" for k, v in user.items()]
    everything = [(f"image1_{v}", f"st_{op}") for v in ("vm1", "vm2", "vm3") for op in ("get", "pop", "check", "unset")]
    # the manual tests name no source location: the states they start from are in each worker's own pool
    scn = engine.Scenario("manu", "", " ".join(nets), shared=everything, own={n: everything for n in nets}, D=(1.0,), O=("PASS", "FAIL"))
    scn.watch = ["vm_action", "vms", "get_state_images", "set_state_images", "unset_state_images", "check_state_images", "push_state_images", "pop_state_images", "main_vm"]
    scn.watch += [f"{op}_mode@vm" for op in STATE_STEPS]

    def fn():
        cfg = {"i2n.manu.params": args}
        return Manu().run(cfg)

    r = tools.run_tool(scn, fn, prefix)
    runs = []
    ends = {}
    for e in r.trace:
        if e["k"] == "end":
            ends[e["seq"]] = e
    for idx, e in enumerate(r.trace):
        if e["k"] == "start":
            runs.append({"w": e["w"], "uid": e["uid"], "prefix": e["prefix"], "vm_action": e.get("p_vm_action"), "vms": e.get("p_vms"), "idx": idx,
                         "states": {k: e.get("p_" + k) for k in scn.watch if k.endswith("_state_images")}, "seq": e["seq"], "main_vm": e.get("p_main_vm"),
                         "modes": {k[:-3]: e.get("p_" + k) for k in scn.watch if k.endswith("@vm")},
                         "status": ends.get(e["seq"], {}).get("status"), "end_idx": next((j for j, x in enumerate(r.trace) if x["k"] == "end" and x["seq"] == e["seq"]), None)})
    return {"case": case, "exc": r.exc, "rc": r.rc, "runs": runs, "kinds": [p[0] for p in r.points], "choices": r.choices}


def run(tier: str, seed: int) -> int:
    common.bootstrap("mini")
    from vt.e1 import engine

    engine.install_memo()
    rep = common.Report("C20", tier, seed, "enumeration of setup chains x vm selections x worker sets through the real Manu.run on the virtual-time loop, one failing execution at every position")
    rep.rule = ("cases = chains of length <= L over the built-in steps x vm selections x worker sets (incl. restricted workers first/middle/last); for every case the default run and every "
                "placement of one failing execution; distinct = distinct (case, failing position)")
    q = tier == "quick"
    steps = STATE_STEPS + list(VM_STEPS) + ["noop"] + list(ROOT_STEPS)
    chains = [[s] for s in steps]
    chains += [["create", "set"], ["clean", "create"], ["collect", "get"], ["unset", "clean"]]
    chains += [["boot", "get"], ["shutdown", "pop"], ["upload", "collect", "set"], ["control", "check"], ["boot", "unset", "shutdown"]]
    if q:
        chains += [["check", "get"], ["boot", "shutdown"], ["noop", "set"], ["get", "boot", "set"], ["unset", "pop"], ["push", "pop"], ["check", "check"], ["get", "boot", "get"]]
    else:
        chains += [list(c) for c in itertools.product(["check", "get", "unset", "pop", "boot", "shutdown", "noop"], repeat=2)]
        chains += [["get", "boot", "set"], ["check", "shutdown", "get"], ["noop", "set", "unset"], ["boot", "get", "shutdown"], ["push", "pop", "check"]]
    vmsels = [["vm1"], ["vm1", "vm2"]] if q else [["vm1"], ["vm1", "vm2"], ["vm1", "vm2", "vm3"]]
    netsels = [["net1"], ["net1", "net2"], ["net5", "net1"], ["net1", "net3"]] if q else [["net1"], ["net1", "net2"], ["net5", "net1"], ["net1", "net5", "net2"], ["net3", "net5"]]
    cases = []
    for ch in chains:
        for vms in vmsels:
            for nets in netsels:
                if q and len(ch) == 1 and (nets not in (["net1", "net2"], ["net5", "net1"]) or vms != ["vm1", "vm2"]):
                    continue
                if q and len(ch) > 1 and nets == ["net1", "net3"] and vms == ["vm1"]:
                    continue
                cases.append({"chain": ch, "vms": vms, "nets": nets})
    # the step's parameters: a policy given by the user for all vms or for one vm must be the one the step's test applies to that vm
    USER_MODES = {"check": ["rf", "ff"], "get": ["ia", "ra"], "set": ["af", "rf"], "unset": ["fa", "ra"], "push": ["af", "rf"], "pop": ["ra", "fa"]}
    for op, modes in USER_MODES.items():
        for mode in (modes[:1] if q else modes):
            for user in ({f"{op}_mode": mode}, {f"{op}_mode_vm2": mode}, {f"{op}_mode_vm1": mode, f"{op}_mode": modes[-1]}):
                for ch in ([op], ["check", op] if op != "check" else ["check", "get"]):
                    cases.append({"chain": ch, "vms": ["vm1", "vm2"], "nets": ["net1", "net2"], "user": user})
    results = list(common.pmap(analyse, cases))
    # one failing execution at every position (OUT choice points)
    extra = []
    for r0 in results:
        if r0["exc"]:
            continue
        outs = [i for i, k in enumerate(r0["kinds"]) if k == "OUT"]
        lim = 3 if q else 5
        for i in outs[:lim]:
            extra.append(dict(r0["case"], prefix=r0["choices"][:i] + [1]))
    results += list(common.pmap(analyse, extra))
    for r in results:
        c = r["case"]
        cid = f"setup={','.join(c['chain'])} vms={','.join(c['vms'])} nets={','.join(c['nets'])}" + (f" failing@{len(c['prefix'])}" if c.get("prefix") else "") + (f" user={c['user']}" if c.get("user") else "")
        rep.evaluations += 1
        rep.transitions += len(r["kinds"]) + 1
        rep.traces_validated += 1
        inp = dict(c)
        if r["exc"] is not None:
            rep.violation(f"[{cid}] chain failed with {r['exc']}", inp, {"kind": "exception"})
            continue
        any_failed = False
        last_end = -1
        for i, step in enumerate(c["chain"]):
            tag = f"0m{i}"
            mine = [x for x in r["runs"] if x["prefix"].startswith(tag) or x["uid"].startswith(tag)]
            if step == "noop":
                if mine:
                    rep.violation(f"[{cid}] step {i} (noop) executed {len(mine)} tests", inp, {"kind": "noop-ran"})
                continue
            expected = {}
            if step in STATE_STEPS or step in ROOT_STEPS:
                for w in c["nets"]:
                    for vm in c["vms"]:
                        if compatible(w, vm):
                            expected[(w, vm)] = 1
            else:
                for w in c["nets"]:
                    if all(compatible(w, vm) for vm in c["vms"]):
                        expected[(w, " ".join(sorted(c["vms"])))] = 1
            got = {}
            for x in mine:
                key = (x["w"], " ".join(sorted((x["vms"] or "").split())))
                got[key] = got.get(key, 0) + 1
                want_action = step if step in STATE_STEPS else (ROOT_STEPS[step][0] if step in ROOT_STEPS else VM_STEPS[step])
                if x["vm_action"] != want_action:
                    rep.violation(f"[{cid}] step {i} ({step}) executed a test with vm_action={x['vm_action']!r}", inp, {"kind": "wrong-action", "step": step})
                if step in ROOT_STEPS and x["states"].get(f"{ROOT_STEPS[step][0]}_state_images") != ROOT_STEPS[step][1]:
                    rep.violation(f"[{cid}] step {i} ({step}) executed without addressing the {ROOT_STEPS[step][1]} state ({x['states']})", inp, {"kind": "missing-param", "step": step})
                if step in STATE_STEPS and x["states"].get(f"{step}_state_images") != f"st_{step}":
                    rep.violation(f"[{cid}] step {i} ({step}) executed without its state parameter ({x['states']})", inp, {"kind": "missing-param", "step": step})
                # the step's own parameters: a state step acts on the vm it was parsed for, a management step on the first selected vm
                acted = (x["vms"] or "").split()
                want_main = acted[0] if (step in STATE_STEPS or step in ROOT_STEPS) else sorted(c["vms"])[0]
                if x.get("main_vm") != want_main:
                    rep.violation(f"[{cid}] step {i} ({step}) for {x['vms']} on {x['w']} acts on main_vm={x.get('main_vm')!r}, expected {want_main!r}", inp,
                                  {"kind": "wrong-main-vm", "step": step, "chained": len(c["chain"]) > 1})
                for vm in (x["vms"] or "").split():
                    if vm not in c["vms"]:
                        rep.violation(f"[{cid}] step {i} ({step}) executed for unselected {vm}", inp, {"kind": "unselected-vm"})
                for k_, v_ in (c.get("user") or {}).items():
                    op_, _, vm_ = k_.partition("_mode")
                    if op_ != step:
                        continue
                    for vm in (x["vms"] or "").split():
                        want = (c["user"].get(f"{op_}_mode_{vm}") or c["user"].get(f"{op_}_mode")) if (vm_ in ("", "_" + vm)) else None
                        seen_mode = (x["modes"].get(f"{op_}_mode") or {}).get(vm)
                        if want is not None and seen_mode != want:
                            rep.violation(f"[{cid}] step {i} ({step}) acts on {vm} with {op_}_mode={seen_mode!r} although the user gave {k_}={v_}", inp,
                                          {"kind": "user-param-ignored", "step": step, "per_vm": bool(vm_)})
                if x["idx"] < last_end:
                    rep.violation(f"[{cid}] step {i} ({step}) started before the previous step finished", inp, {"kind": "order"})
                if x["status"] not in ("PASS", None):
                    any_failed = True
            if got != expected:
                missing = sorted(k for k in expected if k not in got)
                extra_k = sorted(k for k in got if k not in expected)
                dup = sorted(k for k, v in got.items() if v > 1)
                rep.violation(f"[{cid}] step {i} ({step}): executed {sorted(got.items())}, expected once each for {sorted(expected)} (missing {missing}, extra {extra_k}, repeated {dup})",
                              inp, {"kind": "multiset", "missing": bool(missing), "extra": bool(extra_k), "repeated": bool(dup), "group": step in STATE_STEPS or step in ROOT_STEPS})
            ends_ = [x["end_idx"] for x in mine if x["end_idx"] is not None]
            if ends_:
                last_end = max(last_end, max(ends_))
        exp_rc = 1 if any_failed else 0
        if r["rc"] != exp_rc:
            rep.violation(f"[{cid}] chain returned {r['rc']}, expected {exp_rc} (a step failed: {any_failed})", inp, {"kind": "return-code", "expected": exp_rc})
        rep.distinct.add((cid,))
        if len(rep.samples) < 4:
            rep.sample({"case": cid, "executions": [(x["w"], x["vms"], x["vm_action"], x["status"]) for x in r["runs"]], "rc": r["rc"]})
    rep.states = len(results)
    rep.sections["cases"] = len(cases)
    rep.sections["failing_placements"] = len(extra)
    rep.bounds = {"chain_length": 3, "steps": steps, "vm_selections": vmsels, "worker_sets": netsels}
    rep.assumptions = ["a test is modelled by the world (outcome chosen by the explorer); worker compatibility is transcribed from nets.cfg (net3/net5 restrictions) and the default vm variants",
                       "vm management steps (boot, shutdown) run one test per worker covering all selected vms, as the tool documents"]
    return rep.finish()


def replay(path: str) -> int:
    print(open(path).read())
    return 0
