"""C03 — no test is executed more often than its retry budget per reuse scope (E1)."""
from vt.e1 import checkbase, monitors, scenarios as S

TECH = "stateless deviation-bounded exploration of the real traversal (virtual-time scheduler) with execution-count oracle"


def plan(tier):
    q = tier == "quick"
    p = []
    p.append((S.T1(), 1 if q else 3, 1))
    p.append((S.T2(), 2 if q else 3, 3))
    p.append((S.T2("net1 net2 net3"), 1 if q else 2, 2))
    p.append((S.T3(), 1 if q else 2, 2))
    p.append((S.T13(), 1 if q else 2, 2))
    # initial pool contents: setup present in the shared pool / in the examining worker's own pool
    p.append((S.T2(shared=S.VM1_CHAIN).variant("/shared=chain"), 2 if q else 3, 1))
    p.append((S.T2(shared=S.VM1_CHAIN[:2]).variant("/shared=install+customize"), 1 if q else 2, 1))
    p.append((S.T2(own={"net1": S.VM1_CHAIN, "net2": S.VM1_CHAIN}).variant("/own=chain"), 1 if q else 2, 1))
    # retries
    for mt in (2, 3):
        p.append((S.T2(params={"max_tries": mt}).variant(f"/max_tries={mt}"), 1 if q else 2, 2))
    p.append((S.T2(params={"max_tries": 3, "max_concurrent_tries": 2}).variant("/mt=3,mct=2"), 1 if q else 2, 1))
    p.append((S.T2(params={"max_tries": 2, "stop_status": "pass"}).variant("/mt=2,stop=pass"), 1 if q else 2, 1))
    # narrowed scopes and spawner kinds
    p.append((S.T2(params={"pool_scope": "own shared"}).variant("/scope=own+shared"), 1 if q else 2, 2))
    p.append((S.T2("cluster1.net6 cluster1.net7 cluster2.net6").variant("/clusters"), 1 if q else 2, 2))
    p.append((S.T2("cluster1.net6 cluster1.net7 cluster2.net6", params={"pool_scope": "own swarm shared"}).variant("/clusters,scope=own+swarm+shared"), 1 if q else 2, 2))
    import itertools
    for r in (1, 2, 3):
        for sub in itertools.combinations(S.VM1_CHAIN, r):
            tag = "+".join(st for _, st in sub)
            p.append((S.T2(params={"pool_scope": "own shared", "max_tries": 2}, own={"net2": sub}).variant(f"/scope=own+shared,mt=2,own(net2)={tag}"), 0 if q else 1, 0.5))
            p.append((S.T2(own={"net2": sub}).variant(f"/own(net2)={tag}"), 0 if q else 1, 0.5))
            if r < 3:
                p.append((S.T2(shared=sub).variant(f"/shared={tag}"), 0 if q else 1, 0.5))
    p.append((S.T2("cluster1.net6 cluster2.net6", params={"pool_scope": "own swarm shared", "max_tries": 2}, own={"cluster2.net6": S.VM1_CHAIN}).variant("/clusters,scope=own+swarm+shared,mt=2,own(c2.net6)=chain"), 1 if q else 2, 1))
    # durations that add up beyond one timeout budget although every single test stays below it (budget 10 back-off periods)
    p.append((S.T1(params={"test_timeout": 1}, D=(1.0, 9.0, 6.0)).variant("/timeout=10p,D<=9p"), 2 if q else 3, 2))
    p.append((S.T1("net0").variant("/serial"), 2 if q else 3, 0.5))
    # a result that is never reported still consumes the try
    p.append((S.T1("net1 net2", shared=S.VM1_CHAIN, O=("PASS", "NORESULT"), D=(1.0,)).variant("/leaf-only,O=PASS+NORESULT"), 1 if q else 2, 0.5))
    p.append((S.T2("net1 net2", shared=S.VM1_CHAIN[:2], O=("PASS", "NORESULT"), D=(1.0,)).variant("/O=PASS+NORESULT"), 1, 0.5))
    # lazily parsed graph with clones
    p.append((S.G2(), 0 if q else 1, 3))
    # COMPLETE enumeration (no deviation bound): every duration / outcome / tie-order sequence of small graphs
    p.append((S.T1(shared=S.VM1_CHAIN[:2]).variant("/shared=install+customize,ALL-SCHEDULES"), 99, 0.5))
    p.append((S.T1("net1 net2 net3", shared=S.VM1_CHAIN[:2]).variant("/shared=install+customize,ALL-SCHEDULES"), 99, 0.5))
    p.append((S.T1(shared=S.VM1_CHAIN[:1]).variant("/shared=install,ALL-SCHEDULES"), 99, 1))
    p.append((S.T2(shared=S.VM1_CHAIN[:2]).variant("/shared=install+customize,ALL-SCHEDULES"), 99, 1))
    if not q:
        p.append((S.T2(shared=S.VM1_CHAIN[:1]).variant("/shared=install,ALL-SCHEDULES"), 99, 4))
    # realistic long budgets (stock test_timeout=3600 s => back-off 3.6 s) with tests running for thousands of seconds within the budget
    scn_ = S.T1(shared=S.VM1_CHAIN[:2], params={"test_timeout": 3600}, D=(1.0, 20000.0, 30000.0)).variant("/timeout=3600s,D<=3000s")
    scn_.max_steps, scn_.max_vtime = 400000, 100000.0
    p.append((scn_, 1 if q else 2, 1))
    # every pair of run settings on a setup + leaf selection
    p += S.settings_pairs(lambda **kw: S.T1(shared=S.VM1_CHAIN[:2], D=(1.0, 15.0), **kw), tier)
    # an explicit concurrency limit above the retry budget
    p.append((S.T1(shared=S.VM1_CHAIN[:2], params={"max_concurrent_tries": 2}).variant("/shared=install+customize,mct=2,mt=1"), 1, 0.3))
    # configuration matrix: worker kinds x reuse scopes x slot bindings (same selection, default schedule and single deviations)
    p += S.config_matrix(S.T2, tier)
    p += [(scn.variant(",mt=2"), k, w) for scn, k, w in S.config_matrix(S.T2, tier, k_quick=0, k_thorough=1, extra_params={"max_tries": 2})]
    return p


def run(tier, seed):
    return checkbase.run_e1("C03", tier, seed, TECH, (lambda: plan(tier)), monitors.c03, 600, 2400,
                            "executions = complete runs of the real traversal, one per choice sequence (test durations from D, outcomes from O, "
                            "tie order of simultaneous events) with at most k non-default choices; distinct = distinct (scenario, sequence of "
                            "(worker, test, status)) signatures; states = distinct event histories at choice points",
                            ["a test is modelled by the world (duration, outcome, state effects); state control answered by the pool model",
                             "durations stay far below the timeout budget"])


def replay(path):
    return checkbase.replay_e1(path, monitors.c03)
