"""C09 — workers get equivalent linked graph copies; lazy and eager parsing agree (E4 static + lazy-vs-eager)."""
from vt.e4 import driver


def run(tier, seed):
    return driver.run_parse_check("C09", tier, seed, "exhaustive enumeration of parser inputs; per-worker copies, links and shared bookkeeping compared structurally; lazy expansion (real dry-run traversal) vs complete parse; double parse",
                                  "inputs as for C06 (those with >= 2 workers exercise the copies); per pair of workers every equivalent node must exist unless the worker's restrictions "
                                  "exclude it, have the same dependencies, be linked both ways and share the four visit registers; the lazily expanded graph must be a sub-graph of the "
                                  "complete parse with identical dependencies covering every test; two parses of one input must be equal",
                                  ["lazy expansion is driven by the default schedule of a dry-run traversal here; other schedules are explored by the traversal checks"])


def replay(path):
    print(open(path).read())
    return 0
