"""C14 — pool transfers are exact, never destroy data, and exclude each other (E2 sequential part + E3 procmc)."""
from __future__ import annotations

import contextlib
import itertools
import os
import shutil

from vt import common
from vt.e3 import procmc

A, B = b"AAAAAAAA-content-of-A", b"BBBBBBBBBBBB-content-of-B!"


def _write(path, data):
    os.makedirs(os.path.dirname(path), exist_ok=True)
    with open(path, "wb") as f:
        f.write(data)


def _read(path):
    if os.path.islink(path) and not os.path.exists(path):
        return "DEADLINK"
    if not os.path.exists(path):
        return None
    with open(path, "rb") as f:
        return f.read()


# ---------------------------------------------------------------------------------------------------------
# sequential part: every pre-state x operation
# ---------------------------------------------------------------------------------------------------------
def sequential(rep, pool, work):
    from virttest.utils_params import Params

    params = Params({"update_pool_timeout": "3"})
    cache_states = ["absent", "A", "B", "link->pool", "deadlink", "link->elsewhere"]
    pool_states = ["absent", "A", "B"]
    ops = ["download_local", "upload_local", "delete_local", "download_link", "upload_link", "delete_link"]
    n = 0
    for cs, ps, op in itertools.product(cache_states, pool_states, ops):
        n += 1
        d = os.path.join(work, f"s{n}")
        cache = os.path.join(d, "cache", "vm1", "image.qcow2")
        poolf = os.path.join(d, "pool", "vm1", "image.qcow2")
        elsewhere = os.path.join(d, "else", "image.qcow2")
        os.makedirs(os.path.dirname(cache))
        os.makedirs(os.path.dirname(poolf))
        _write(elsewhere, b"ELSEWHERE")
        if ps != "absent":
            _write(poolf, A if ps == "A" else B)
        if cs in ("A", "B"):
            _write(cache, A if cs == "A" else B)
        elif cs == "link->pool":
            os.symlink(poolf, cache)
        elif cs == "deadlink":
            os.symlink(os.path.join(d, "nowhere"), cache)
        elif cs == "link->elsewhere":
            os.symlink(elsewhere, cache)
        pool_before, cache_before = _read(poolf), _read(cache)
        cache_was_link = os.path.islink(cache)
        copies = []
        real_copy = shutil.copy

        def spy_copy(src, dst, *a, **k):
            copies.append((src, dst))
            return real_copy(src, dst, *a, **k)

        exc = None
        import unittest.mock as mock

        with mock.patch.object(pool.shutil, "copy", spy_copy):
            try:
                fn = getattr(pool.TransferOps, op)
                if op.startswith("delete"):
                    fn(poolf, params)
                else:
                    fn(cache, poolf, params)
            except Exception as e:  # noqa: BLE001
                exc = type(e).__name__
        pool_after, cache_after = _read(poolf), _read(cache)
        inp = {"cache": cs, "pool": ps, "op": op, "exception": exc}
        rep.transitions += 1
        rep.distinct.add(("seq", cs, ps, op))
        probs = []
        real_cache_data = cs in ("A", "B")
        if op in ("download_local", "download_link"):
            if pool_after != pool_before:
                probs.append(f"download changed the pool file: {pool_before!r} -> {pool_after!r}")
            if op == "download_local" and exc is None and pool_before is not None and cache_after != pool_before:
                probs.append(f"after download the cache holds {cache_after!r}, the pool {pool_before!r}")
            if op == "download_local" and pool_before is not None and cache_before == pool_before and copies and cs in ("A", "B"):
                probs.append("copy performed although cache and pool already matched")
            if op == "download_link":
                if real_cache_data and os.path.islink(cache):
                    probs.append("link mode replaced real cache data by a link")
                if real_cache_data and cache_after != cache_before:
                    probs.append(f"link mode altered real cache data: {cache_before!r} -> {cache_after!r}")
                if real_cache_data and pool_before is not None and cache_before != pool_before and exc is None:
                    probs.append("link mode silently kept differing real data instead of refusing")
                if exc is None and not real_cache_data and pool_before is not None and cache_after != pool_before:
                    probs.append(f"after linking the cache resolves to {cache_after!r}, the pool holds {pool_before!r}")
        elif op in ("upload_local", "upload_link"):
            if cache_after != cache_before or os.path.islink(cache) != cache_was_link:
                probs.append(f"upload changed its source: {cache_before!r} -> {cache_after!r}")
            if op == "upload_link" and cache_was_link:
                if exc is None:
                    probs.append("a link was uploaded (accepted without error)")
                if pool_after != pool_before:
                    probs.append("refused upload of a link still changed the pool")
            elif exc is None and real_cache_data and pool_after != cache_before:
                probs.append(f"after upload the pool holds {pool_after!r}, the source {cache_before!r}")
            if real_cache_data and cache_before == pool_before and copies:
                probs.append("copy performed although cache and pool already matched")
            if os.path.islink(poolf):
                probs.append("the pool file became a link")
            if exc is not None and pool_after != pool_before and not (op == "upload_link" and cache_was_link):
                probs.append(f"failed upload ({exc}) altered the pool: {pool_before!r} -> {pool_after!r}")
        else:
            if cache_after != cache_before and cs != "link->pool":
                probs.append("delete changed the cache")
            if pool_before is not None and exc is None and pool_after is not None:
                probs.append("delete left the pool file in place")
        for pmsg in probs:
            rep.violation(f"sequential {op} with cache={cs} pool={ps}: {pmsg}", inp, {"part": "sequential", "op": op, "what": pmsg.split(":")[0][:40]})
        shutil.rmtree(d, ignore_errors=True)
    # contents that agree on their first MiB and differ afterwards (the comparison hashes a bounded prefix)
    big = b"\0" * 1048576
    for op in ("download_local", "upload_local", "download_link"):
        n += 1
        d = os.path.join(work, f"s{n}")
        cache = os.path.join(d, "cache", "vm1", "image.qcow2")
        poolf = os.path.join(d, "pool", "vm1", "image.qcow2")
        _write(cache, big + b"tail-of-the-cache")
        _write(poolf, big + b"tail-of-the-pool!")
        src, dst = (poolf, cache) if op.startswith("download") else (cache, poolf)
        before = _read(src)
        exc = None
        try:
            getattr(pool.TransferOps, op)(cache, poolf, params)
        except Exception as e:  # noqa: BLE001
            exc = type(e).__name__
        rep.transitions += 1
        rep.distinct.add(("seq-big", op))
        if op == "download_link":
            if exc is None:
                rep.violation(f"sequential {op} with contents equal in their first MiB but different afterwards: differing real data silently kept as if it matched",
                              {"op": op, "contents": "1 MiB equal prefix + different tails"}, {"part": "sequential", "what": "prefix-only comparison", "op": op})
        elif _read(dst) != before:
            rep.violation(f"sequential {op} with contents equal in their first MiB but different afterwards: the copy was skipped, destination differs from the source",
                          {"op": op, "contents": "1 MiB equal prefix + different tails"}, {"part": "sequential", "what": "prefix-only comparison", "op": op})
        shutil.rmtree(d, ignore_errors=True)
    rep.sections["sequential_cells"] = n
    rep.sample({"sequential": {"cache": "B", "pool": "A", "op": "download_link", "expected": "RuntimeError, cache keeps B"}})
    return n


# ---------------------------------------------------------------------------------------------------------
# concurrent part
# ---------------------------------------------------------------------------------------------------------
OPS = ["upA", "upB", "down", "delete", "downlink"]


def make_programs_factory(pool, ops, pool_state, timeout):
    from virttest.utils_params import Params

    def make(tmp):
        poolf = os.path.join(tmp, "pool", "vm1", "image.qcow2")
        os.makedirs(os.path.dirname(poolf))
        if pool_state != "absent":
            _write(poolf, A if pool_state == "A" else B)
        params = Params({"update_pool_timeout": str(timeout)})
        progs = []
        for i, op in enumerate(ops):
            cache = os.path.join(tmp, f"cache{i}", "vm1", "image.qcow2")
            os.makedirs(os.path.dirname(cache))
            if op == "upA":
                _write(cache, A)
                progs.append(lambda cache=cache: pool.TransferOps.upload_local(cache, poolf, params))
            elif op == "upB":
                _write(cache, B)
                progs.append(lambda cache=cache: pool.TransferOps.upload_local(cache, poolf, params))
            elif op == "down":
                progs.append(lambda cache=cache: pool.TransferOps.download_local(cache, poolf, params))
            elif op == "delete":
                progs.append(lambda: pool.TransferOps.delete_local(poolf, params))
            elif op == "downlink":
                progs.append(lambda cache=cache: pool.TransferOps.download_link(cache, poolf, params))
        return progs, [os.path.abspath(poolf)]

    return make


def make_check(ops, pool_state):
    contents = {"A": A, "B": B}

    def check(s, tmp):
        out = []
        poolf = os.path.abspath(os.path.join(tmp, "pool", "vm1", "image.qcow2"))
        # 1. sections of different processes on the pool file never overlap
        first, last = {}, {}
        for idx, (pid, kind, detail) in enumerate(s.trace):
            if kind in ("data-begin", "data-end") and detail == poolf:
                first.setdefault(pid, idx)
                last[pid] = idx
        pids = sorted(first)
        for a_, b_ in itertools.combinations(pids, 2):
            if first[a_] < last[b_] and first[b_] < last[a_]:
                out.append(f"operations on the pool file overlap: process {a_} ({ops[a_]}) trace[{first[a_]}..{last[a_]}] and process {b_} ({ops[b_]}) trace[{first[b_]}..{last[b_]}]")
        # 2. nobody touches the pool file without holding a lock (replay of the lock model along the trace)
        holding = {}
        for pid, kind, detail in s.trace:
            if kind == "locked":
                holding[pid] = holding.get(pid, 0) + 1
            elif kind in ("unlocked",):
                holding[pid] = 0
            elif kind == "data-begin" and detail == poolf and not holding.get(pid):
                out.append(f"process {pid} ({ops[pid]}) operates on the pool file without holding the lock")
        # 3. a waiter that timed out did nothing to the pool file
        for pid, (etype, msg) in s.errors.items():
            if pid == "sched":
                out.append(f"scheduler horizon: {msg}")
                continue
            if etype == "RuntimeError" and ("took more than" in msg or msg.startswith("Waiting to acquire")):
                if pid in first:
                    out.append(f"process {pid} timed out waiting for the lock but still operated on the pool file")
            elif etype in ("FileNotFoundError",):
                pass  # the pool file was absent/deleted at that moment
            elif etype == "OSError" and s.fault and s.fault[2] == "oserror" and s.fault[0] == pid:
                pass
            elif etype == "RuntimeError" and "data exists" in msg:
                pass
            else:
                out.append(f"process {pid} ({ops[pid]}) failed with unexpected {etype}: {msg}")
        # 4. final pool content is one of the whole versions (or absent); torn content only after a crash/fault inside a copy into the pool
        final = _read(poolf)
        allowed = {None} if ("delete" in ops or pool_state == "absent") else set()
        if pool_state != "absent":
            allowed.add(contents[pool_state])
        for o in ops:
            if o == "upA":
                allowed.add(A)
            if o == "upB":
                allowed.add(B)
        torn_ok = s.fault is not None and ops[s.fault[0]] in ("upA", "upB")
        if final not in allowed and not torn_ok:
            out.append(f"final pool content {final!r} is none of the whole versions {sorted(str(a_) for a_ in allowed)}")
        # 5. a completed download delivered a whole version
        for i, o in enumerate(ops):
            if o == "down" and i not in s.errors and not s.dead[i]:
                c = _read(os.path.join(tmp, f"cache{i}", "vm1", "image.qcow2"))
                torn_source = s.fault is not None and ops[s.fault[0]] in ("upA", "upB")  # the pool copy itself was cut short by the fault
                if c not in (None, A, B) and not torn_source:
                    out.append(f"download of process {i} delivered mixed content {c!r}")
        # 6. all locks are gone at the end
        if s.locks.owner:
            out.append(f"locks still held after all processes ended: {s.locks.owner}")
        return out

    return check


def run(tier: str, seed: int) -> int:
    common.bootstrap("mini")
    from avocado_i2n.states import pool

    rep = common.Report("C14", tier, seed, "preemption-bounded exploration of simulated processes around image_lock (POSIX lock model validated against the kernel) + exhaustive sequential pre-state cells")
    rep.rule = ("sequential cells = cache state (6) x pool state (3) x operation (6) on real temporary directories; concurrent executions = all schedules with at most b preemptions of "
                "2 (thorough 3) simulated processes running the real TransferOps on one pool path from each pool pre-state, plus a crash or an injected OSError at every scheduling "
                "point of every process; distinct = distinct (programs, pre-state, fault, outcome summary)")
    q = tier == "quick"
    work = os.path.join(common.workdir(), "c14")
    os.makedirs(work, exist_ok=True)
    sequential(rep, pool, work)
    # kernel conformance of the lock model
    seqs, kops, mism = procmc.kernel_conformance(work, 4 if q else 5)
    rep.sections["kernel_conformance"] = {"sequences": seqs, "operations": kops, "mismatches": len(mism), "depth": 4 if q else 5}
    if mism:
        raise common.HarnessError(f"the POSIX lock model disagrees with the kernel: {mism[0]}")
    rep.extra["model_traces_replayed_against_kernel"] = seqs

    total = 0
    per = []
    progsets = list(itertools.combinations_with_replacement(OPS, 2))
    if not q:
        progsets += [("upA", "upB", "down"), ("upA", "delete", "upB"), ("delete", "upA", "downlink")]
    jobs = []
    for ops in progsets:
        for pool_state in ("absent", "A") if q else ("absent", "A", "B"):
            for timeout in ((3,) if q else (2, 3)):
                jobs.append((ops, pool_state, timeout, q, work))
    # three processes with a deleter at preemption bound 3, split into subtrees (needed e.g. for a lock file that stops identifying one inode)
    heavy = [(("delete", "upA", "upB"), "A", 3)] if q else [(("delete", "upA", "upB"), "A", 3), (("delete", "upA", "down"), "A", 3), (("upA", "delete", "upB"), "B", 3)]
    with contextlib.ExitStack() as stack:
        procmc.install(stack, pool)
        for ops, pool_state, timeout in heavy:
            mk = make_programs_factory(pool, ops, pool_state, timeout)
            chk = make_check(ops, pool_state)
            n0, v0, f0, kids = procmc.explore(mk, 3, work, chk, children_only=True)
            for kid in kids:
                jobs.append((ops, pool_state, timeout, q, work, kid))
    for res in common.pimap_unordered(_explore_set, jobs):
        total += res["schedules"] + res["fault_executions"]
        for text, replay, sig in res["violations"]:
            rep.violation(text, replay, sig)
        for d in res["distinct"]:
            rep.distinct.add(d)
        per.append({k: v for k, v in res.items() if k not in ("violations", "distinct")})
    merged = {}
    for r in per:
        k = (tuple(r["programs"]), r["pool"], r["timeout"], r["preemption_bound"])
        if k in merged:
            for f in ("schedules", "fault_executions"):
                merged[k][f] += r[f]
            merged[k]["complete"] = merged[k]["complete"] and r["complete"]
        else:
            merged[k] = r
    per = sorted(merged.values(), key=lambda r: (r["programs"], r["pool"], r["timeout"]))
    rep.sections["concurrent"] = per[:60]
    rep.sample({"programs": ["upA", "upB"], "pool": "absent", "schedule": [0, 0, 0, 1], "meaning": "process 0 preempted after acquiring the lock, process 1 retries"})
    rep.states = total + rep.sections["sequential_cells"]
    rep.transitions += total
    rep.evaluations = rep.transitions
    rep.traces_validated = total + seqs
    rep.bounds = {"processes": "2" if q else "2-3", "preemptions": "2 (1 with faults)" if q else "3 (2 with faults)", "timeouts": [3] if q else [2, 3]}
    rep.assumptions = ["simulated processes share one interpreter; the lock model is bound to the kernel by replaying all lock-operation sequences up to the stated depth with two real processes",
                       "2..8 processes of the quantifier are covered for 2 (thorough 3); remote (scp) transfers have no lock support by the code's own admission and are not exercised",
                       "a crash ends a process at a scheduling point without running its finally blocks; an injected OSError runs them"]
    shutil.rmtree(work, ignore_errors=True)
    return rep.finish()


def _explore_set(job):
    """All schedules (and all single faults) of one program set from one pre-state; runs in a forked worker."""
    start = None
    if len(job) == 6:
        ops, pool_state, timeout, q, work, start = job
    else:
        ops, pool_state, timeout, q, work = job
    from avocado_i2n.states import pool

    work = os.path.join(work, f"p{os.getpid()}")
    os.makedirs(work, exist_ok=True)
    out = {"programs": list(ops), "pool": pool_state, "timeout": timeout, "violations": [], "distinct": []}
    with contextlib.ExitStack() as stack:
        procmc.install(stack, pool)
        bound = (2 if len(ops) == 2 else 1) if q else (3 if len(ops) == 2 else 2)
        mk = make_programs_factory(pool, ops, pool_state, timeout)
        chk = make_check(ops, pool_state)
        if start is not None:
            bound = 3
        n, viol, finals, complete = procmc.explore(mk, bound, work, chk, start=start)
        for v, choices, fault in viol[:3]:
            out["violations"].append((f"{ops} pool={pool_state} timeout={timeout}: {v}", {"ops": ops, "pool": pool_state, "timeout": timeout, "schedule": choices, "fault": fault},
                                      {"part": "concurrent", "what": v.split(":")[0][:45]}))
        for f in finals:
            out["distinct"].append((ops, pool_state, timeout, None, f))
        base = procmc.run_schedule(mk, _fresh(work), [])
        npoints = list(base.pcount)
        fault_execs = 0
        if (timeout == 3 or not q) and start is None:
            for pid in range(len(ops)):
                for k in range(npoints[pid] + 1):
                    for kind in ("crash", "oserror"):
                        fb = 1 if (q or len(ops) > 2) else 2
                        n2, viol2, finals2, _ = procmc.explore(mk, fb, work, chk, fault=(pid, k, kind))
                        fault_execs += n2
                        for v, choices, fault in viol2[:2]:
                            out["violations"].append((f"{ops} pool={pool_state} timeout={timeout} fault={fault}: {v}",
                                                      {"ops": ops, "pool": pool_state, "timeout": timeout, "schedule": choices, "fault": list(fault)},
                                                      {"part": "fault", "kind": kind, "what": v.split(":")[0][:45]}))
                        for f in finals2:
                            out["distinct"].append((ops, pool_state, timeout, (pid, k, kind), f))
        out.update({"preemption_bound": bound, "schedules": n, "fault_executions": fault_execs, "distinct_outcomes": len(finals), "complete": complete})
    shutil.rmtree(work, ignore_errors=True)
    return out


_fresh_n = [0]


def _fresh(work):
    _fresh_n[0] += 1
    d = os.path.join(work, f"b{_fresh_n[0]}")
    os.makedirs(d, exist_ok=True)
    return d


def replay(path: str) -> int:
    print(open(path).read())
    return 0
