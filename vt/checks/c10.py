"""C10 — retry, stop, replay and verdict rules are followed exactly (E1 on small graphs)."""
import itertools

from vt.e1 import checkbase, monitors, scenarios as S

TECH = "exhaustive enumeration of outcome sequences on the real traversal (virtual-time scheduler) against a decision-table reference model"
O7 = ("PASS", "FAIL", "ERROR", "WARN", "SKIP", "CANCEL", "INTERRUPTED")
D1 = (1.0,)


def plan(tier):
    q = tier == "quick"
    p = []
    reruns = [None, "fail", "fail error", "pass", "pass warn skip"] if not q else [None, "fail", "fail error"]
    stops = [None, "pass", "fail", "error skip"] if not q else [None, "pass", "fail"]
    # Y1: one worker, only the leaf runs (its setup is in the shared pool): every outcome sequence
    for mt in (1, 2, 3):
        for rr, st in itertools.product(reruns, stops):
            if mt == 1 and (rr or st):
                continue
            pr = {"max_tries": mt}
            if rr:
                pr["rerun_status"] = rr
            if st:
                pr["stop_status"] = st
            k = mt
            if q and mt == 3 and (rr and st):
                continue
            p.append((S.T1("net1", shared=S.VM1_CHAIN, params=pr, D=D1, O=O7).variant(f"/leaf-only,mt={mt},rerun={rr},stop={st}"), k, 1))
    # Y2: one worker, a setup node and the leaf run
    for mt in (2, 3):
        for rr, st in ((None, None), ("fail", None), (None, "pass"), ("fail error", "error")):
            if q and mt == 3 and rr:
                continue
            pr = {"max_tries": mt}
            if rr:
                pr["rerun_status"] = rr
            if st:
                pr["stop_status"] = st
            p.append((S.T1("net1", shared=S.VM1_CHAIN[:2], params=pr, D=D1, O=("PASS", "FAIL", "ERROR", "WARN")).variant(f"/setup+leaf,mt={mt},rerun={rr},stop={st}"), 2 if q else 3, 1))
    # Y3: two workers sharing tests, stop/rerun rules under interleavings
    for pr, tag in (({"max_tries": 3, "stop_status": "pass"}, "mt=3,stop=pass"), ({"max_tries": 4, "stop_status": "pass"}, "mt=4,stop=pass"),
                    ({"max_tries": 3, "rerun_status": "fail"}, "mt=3,rerun=fail"), ({"max_tries": 2}, "mt=2")):
        p.append((S.T1("net1 net2", shared=S.VM1_CHAIN, params=pr, D=(1.0, 3.0), O=("PASS", "FAIL")).variant(f"/2workers,leaf-only,{tag}"), 2 if q else 3, 1))
        p.append((S.T2("net1 net2", shared=S.VM1_CHAIN[:2], params=pr, D=(1.0, 3.0), O=("PASS", "FAIL")).variant(f"/2workers,{tag}"), 1 if q else 2, 1))
    # the same rules under every worker kind / reuse scope / slot binding (results are shared within a reuse scope only)
    for pr, tag in (({"max_tries": 3, "stop_status": "pass"}, "mt=3,stop=pass"), ({"max_tries": 2, "rerun_status": "fail"}, "mt=2,rerun=fail")):
        p += [(scn.variant("," + tag), k, w) for scn, k, w in
              S.config_matrix(lambda nets, **kw: S.T2(nets, shared=S.VM1_CHAIN[:2], D=(1.0, 3.0), O=("PASS", "FAIL"), **kw), tier, k_quick=1, k_thorough=2,
                              extra_params=pr)]
    # retries of the two-step object creation: the configuration step (or the installation) failing on some or all workers
    for mt in (2, 3):
        for pat, tag in ((r"stateless\.noop", "creation-pre-step"), (r"unattended_install", "install")):
            p.append((S.T1("net1 net2", params={"max_tries": mt}, persistent=(pat, "FAIL"), D=(1.0, 3.0), O=("PASS", "FAIL")).variant(f"/2workers,persistent FAIL of {tag},mt={mt}"),
                      1 if q else 2, 0.5))
        p.append((S.T1("net1 net2", params={"max_tries": mt}, D=(1.0, 3.0), O=("PASS", "FAIL")).variant(f"/2workers,creation,mt={mt}"), 2 if q else 3, 1))
    # invalid settings are rejected
    for key, val in (("max_tries", "-1"), ("max_tries", "abc"), ("max_tries", "1.5"), ("rerun_status", "pass bogus"), ("stop_status", "failed"),
                     ("rerun_status", "PASS")):
        # ... whatever the other (valid) retry settings are and whatever the outcomes
        for comp in ({}, {"rerun_status": "fail"}, {"stop_status": "pass"}, {"rerun_status": "fail", "stop_status": "pass"}, {"rerun_status": "pass"}):
            if key in comp:
                continue
            pr = {"max_tries": 2}
            pr.update(comp)
            pr[key] = val
            tag = ",".join(f"{k_}={v_}" for k_, v_ in comp.items())
            s = S.T1("net1", shared=S.VM1_CHAIN, params=pr, D=D1, O=("PASS", "FAIL")).variant(f"/invalid {key}={val}" + (f" with {tag}" if tag else ""))
            s.invalid_setting = f"{key}={val}"
            p.append((s, 1, 0.3))
        s2 = S.T2("net1 net2", shared=S.VM1_CHAIN[:2], params={"max_tries": 2, key: val}, D=D1, O=("PASS", "FAIL")).variant(f"/2workers,invalid {key}={val}")
        s2.invalid_setting = f"{key}={val}"
        p.append((s2, 0 if q else 1, 0.3))
    # P1: replay of a previous job: all assignments of previous results to the three leaves x state present/missing
    base = S.T2("net1")
    leaves = ["tutorial1", "tutorial2.files", "tutorial2.names"]
    prevs = [None, "PASS", "FAIL", "ERROR"]
    combos = list(itertools.product(prevs, repeat=3))
    if q:
        combos = [c for c in combos if len(set(c)) <= 2][:18]
    for combo in combos:
        amap = dict(zip(leaves, combo))

        def status_of(name, amap=amap):
            for leaf, st in amap.items():
                if f".{leaf}." in name:
                    return st
            return "PASS"  # setup passed in the previous job

        tag = ",".join(str(c) for c in combo)
        p.append((S.replay_of(base, f"{tag};states present", status_of=status_of, shared=S.VM1_CHAIN, D=D1, O=("PASS", "FAIL")), 1, 0.3))
        if combo in ((None, "PASS", "FAIL"), ("PASS", "PASS", "PASS"), ("FAIL", "ERROR", None)) or not q:
            p.append((S.replay_of(base, f"{tag};states missing", status_of=status_of, D=D1, O=("PASS", "FAIL")), 1, 0.3))
    # P2: replay with every subset of the setup chain still present x the second leaf passed / failed before
    for r in range(len(S.VM1_CHAIN) + 1):
        for sub in itertools.combinations(S.VM1_CHAIN, r):
            for leafst in ("PASS", "FAIL"):
                def status_of2(name, leafst=leafst):
                    return leafst if ".tutorial2.files." in name else "PASS"

                tag = "+".join(st for _, st in sub) or "none"
                p.append((S.replay_of(base, f"PASS,{leafst};present={tag}", status_of=status_of2, shared=sub, D=D1, O=("PASS", "FAIL")), 1, 0.3))
    if not q:
        base2 = S.T2("net1 net2")
        for sub in ((), S.VM1_CHAIN[:1], S.VM1_CHAIN[:2]):
            tag = "+".join(st for _, st in sub) or "none"
            p.append((S.replay_of(base2, f"2workers;present={tag}", shared=sub, D=(1.0, 3.0), O=("PASS", "FAIL")), 1, 0.5))
    return p


def run(tier, seed):
    return checkbase.run_e1("C10", tier, seed, TECH, (lambda: plan(tier)), monitors.c10, 420, 2400,
                            "executions = complete runs of the real traversal for every outcome sequence (7 reportable statuses) up to max_tries per test under "
                            "each enumerated max_tries / rerun_status / stop_status setting (one worker: all sequences; two workers: all schedules within k), "
                            "invalid settings, and replays of a previous job with every assignment of previous results to the leaves; "
                            "distinct = distinct (scenario, (worker,test,status) sequence)",
                            ["durations are held constant so that the documented PASS->WARN duration rule does not interfere (it is tolerated by the oracle)",
                             "rerun_status/stop_status are whitespace separated outside replay and comma separated in replay, as the code reads them"],
                            parallel_scenarios=True)


def replay(path):
    return checkbase.replay_e1(path, monitors.c10)
