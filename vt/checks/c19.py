"""C19 — tunnel end point parameters mirror each other (E2, depth 1: exhaustive input product on the real VMTunnel)."""
from __future__ import annotations

import itertools
import json
import unittest.mock as mock

from vt import common

NETWORKS = {
    # two end points with separate LANs, members in each LAN
    "two-lans": {"vm1": {"b1": "10.1.0.1", "b2": "172.17.0.1", "b4": "192.168.1.1"}, "vm2": {"b1": "10.1.0.2", "b2": "172.18.0.1", "b4": "192.168.1.2"},
                 "vm3": {"b1": "10.1.0.3", "b2": "172.17.0.3", "b4": "192.168.1.3"}, "vm4": {"b1": "10.1.0.4", "b2": "172.18.0.4", "b4": "192.168.1.4"}},
    # a multi-homed host present in both LANs
    "multi-homed": {"vm1": {"b1": "10.1.0.1", "b2": "172.17.0.1", "b4": "192.168.1.1"}, "vm2": {"b1": "10.1.0.2", "b2": "172.18.0.1", "b4": "192.168.1.2"},
                    "vm3": {"b1": "10.1.0.3", "b2": "172.17.0.3", "b3": "172.18.0.3", "b4": "192.168.1.3"},
                    "vm4": {"b1": "10.1.0.4", "b2": "172.17.0.4", "b4": "192.168.1.4"}},
    # end points sharing one LAN
    "shared-lan": {"vm1": {"b1": "10.1.0.1", "b2": "172.17.0.1", "b4": "192.168.1.1"}, "vm2": {"b1": "10.1.0.2", "b2": "172.17.0.2", "b4": "192.168.1.2"},
                   "vm3": {"b1": "10.1.0.3", "b2": "172.19.0.3", "b4": "192.168.1.3"}},
}

LOCALS = [{"type": "nic", "nic": "lan_nic"}, {"type": "internetip"},
          {"type": "custom", "lnet": "192.168.50.0", "lmask": "255.255.255.0", "rnet": "192.168.60.0", "rmask": "255.255.255.0", "nic": "lan_nic"},
          {"type": "custom", "lnet": "172.17.0.0", "lmask": "255.255.0.0", "rnet": "172.18.0.0", "rmask": "255.255.0.0", "nic": "lan_nic"},
          {"type": "bogus", "nic": "lan_nic"},
          # the LAN nic role is a parameter as well: a second role mapped to another interface
          {"type": "nic", "nic": "wan_nic"}]
REMOTES = [{"type": "custom", "nic": "lan_nic"}, {"type": "externalip", "nic": "lan_nic"},
           {"type": "modeconfig", "modeconfig_ip": "172.30.0.1", "nic": "lan_nic"}, {"type": "bogus", "nic": "lan_nic"},
           {"type": "custom", "nic": "wan_nic"}]
# the peering nic role is a parameter of its own: the default role and a second one mapped to another interface
PEERS = [{"type": "ip", "nic": "internet_nic"}, {"type": "dynip", "nic": "internet_nic"}, {"type": "bogus", "nic": "internet_nic"},
         {"type": "ip", "nic": "wan_nic"}, {"type": "dynip", "nic": "wan_nic"}]
AUTHS = [None, {"type": "pubkey"}] + [{"type": "psk", "psk": "k", "left_id": l, "right_id": r} for l in ("", "L") for r in ("", "R")] + [{"type": "bogus"}]

RIGHT_REMOTE = {"nic": "CUSTOM", "internetip": "EXTERNALIP", "custom": "CUSTOM"}


def build(cfg):
    from virttest import utils_params
    from avocado_i2n.vmnet import VMNetwork

    rp = utils_params.Params()
    rp["vms"] = " ".join(cfg)
    rp["nic_roles"] = "internet_nic lan_nic wan_nic"
    rp["internet_nic"] = "b1"
    rp["lan_nic"] = "b2"
    rp["wan_nic"] = "b4"
    rp["mac"] = "00:00:00:00:00:00"
    for vm, nics in cfg.items():
        rp[f"nics_{vm}"] = " ".join(nics)
        for nic, ip in nics.items():
            rp[f"ip_{nic}_{vm}"] = ip
            rp[f"netmask_{nic}_{vm}"] = "255.255.0.0"
            rp[f"netdst_{nic}_{vm}"] = "br_" + ".".join(ip.split(".")[:2])
    vms = {}
    env = mock.MagicMock()
    env.get_vm = lambda n: vms.get(n)

    def create_vm(t, tg, name, params, d):
        vm = mock.MagicMock(name=name)
        vm.name = name
        vm.params = params
        vms[name] = vm
        return vm

    env.create_vm = create_vm
    return VMNetwork(rp, env)


def run(tier: str, seed: int) -> int:
    common.bootstrap("mini")
    from avocado_i2n.vmnet.tunnel import VMTunnel

    rep = common.Report("C19", tier, seed, "exhaustive input product on the real VMTunnel vs mirror relations and a counterpart table")
    rep.rule = ("cells = network x ordered end point pair x local{nic,internetip,custom x2,unsupported} x remote{custom,externalip,modeconfig,unsupported} "
                "x peer{ip,dynip,unsupported} x auth{none,pubkey,psk x ids,unsupported}; for every constructed tunnel connects_nodes is compared for all "
                "ordered node pairs; distinct = distinct (types, network, pair) combinations that construct a tunnel")
    cells = 0
    pairs_checked = 0
    nets = NETWORKS if tier == "thorough" else NETWORKS
    for net_name, cfg in nets.items():
        names = list(cfg)
        end_pairs = list(itertools.permutations(names[:2], 2)) + ([(names[0], names[2]), (names[2], names[1])] if tier == "thorough" else [(names[0], names[2])])
        for (n1, n2), l, r, p, a in itertools.product(end_pairs, LOCALS, REMOTES, PEERS, AUTHS):
            cells += 1
            net = build(cfg)
            types = (l["type"], r["type"], p["type"], (a or {"type": "none"})["type"])
            bogus = "bogus" in types
            inp = {"network": net_name, "left": n1, "right": n2, "local": l, "remote": r, "peer": p, "auth": a}
            try:
                t = VMTunnel("t1", net.nodes[n1], net.nodes[n2], dict(l), dict(r), dict(p), dict(a) if a else None)
            except ValueError as e:
                rep.transitions += 1
                if not bogus:
                    rep.violation(f"supported combination {types} rejected with ValueError: {e}", inp, {"kind": "valid-rejected", "types": list(types)})
                continue
            except Exception as e:  # noqa: BLE001
                rep.transitions += 1
                if bogus:
                    rep.note(f"an unsupported type is rejected with {type(e).__name__} instead of ValueError for {types} (accepted as 'rejected')")
                else:
                    rep.violation(f"supported combination {types} failed with {type(e).__name__}: {e}", inp, {"kind": "valid-crash", "types": list(types)})
                continue
            rep.transitions += 1
            if bogus:
                rep.violation(f"unsupported type in {types} was accepted", inp, {"kind": "bogus-accepted", "slot": types.index("bogus")})
                continue
            L, R = t.left_params, t.right_params
            why = []

            def chk(c, w):
                if not c:
                    why.append(w)

            node1, node2 = net.nodes[n1], net.nodes[n2]
            chk(L["vpn_side"] == "left" and R["vpn_side"] == "right", "sides")
            # each side's local network is the other side's remote network
            for a_, b_, tag in ((L, R, "left->right"), (R, L, "right->left")):
                if "vpnconn_lan_net" in a_ and "vpnconn_remote_net" in b_:
                    chk(a_["vpnconn_lan_net"] == b_["vpnconn_remote_net"], f"{tag}: local net {a_['vpnconn_lan_net']} != remote net {b_['vpnconn_remote_net']}")
                    chk(a_.get("vpnconn_lan_netmask") == b_.get("vpnconn_remote_netmask"), f"{tag}: local netmask != remote netmask")
            if l["type"] == "nic":
                lan1 = node1.interfaces[node1.params[l["nic"]]].netconfig
                chk(L.get("vpnconn_lan_net") == lan1.net_ip and R.get("vpnconn_remote_net") == lan1.net_ip, "left nic LAN not mirrored as right remote net")
            if r["type"] == "custom" and l["type"] != "custom":
                lan2 = node2.interfaces[node2.params[r["nic"]]].netconfig
                chk(R.get("vpnconn_lan_net") == lan2.net_ip and L.get("vpnconn_remote_net") == lan2.net_ip, "right LAN not mirrored as left remote net")
            if r["type"] == "custom" and l["type"] == "custom":
                chk(R.get("vpnconn_lan_net") == l["rnet"] and L.get("vpnconn_remote_net") == l["rnet"], "custom right net not mirrored")
                chk(L.get("vpnconn_lan_net") == l["lnet"], "custom left net")
            # peer addresses point at each other
            chk(R["vpnconn_peer_ip"] == node1.interfaces[node1.params[p["nic"]]].ip,
                f"right peer ip {R['vpnconn_peer_ip']} is not the left end point's address on the peering nic {p['nic']}")
            if p["type"] == "ip":
                chk(L["vpnconn_peer_ip"] == node2.interfaces[node2.params[p["nic"]]].ip,
                    f"left peer ip {L['vpnconn_peer_ip']} is not the right end point's address on the peering nic {p['nic']}")
            # pre-shared-key identities are swapped
            if a and a["type"] == "psk":
                chk(L["vpnconn_psk_own_id"] == a["left_id"] and R["vpnconn_psk_own_id"] == a["right_id"], "psk own ids")
                chk(L["vpnconn_psk_own_id"] == R["vpnconn_psk_foreign_id"] and L["vpnconn_psk_foreign_id"] == R["vpnconn_psk_own_id"], "psk ids not swapped")
                chk(L["vpnconn_psk_own_id_type"] == R["vpnconn_psk_foreign_id_type"] and L["vpnconn_psk_foreign_id_type"] == R["vpnconn_psk_own_id_type"], "psk id types not swapped")
                chk(L["vpnconn_psk_own_id_type"] == ("IP" if a["left_id"] == "" else "CUSTOM"), "psk id type")
            # documented counterpart of the left-hand configuration
            chk(L["vpnconn_lan_type"] == l["type"].upper() and L["vpnconn_remote_type"] == r["type"].upper(), "left types not recorded")
            chk(R["vpnconn_remote_type"] == RIGHT_REMOTE[l["type"]], f"right remote type {R['vpnconn_remote_type']} is not the counterpart of left local {l['type']}")
            exp_right_local = {"custom": "CUSTOM" if l["type"] == "custom" else "NIC", "externalip": "INTERNETIP", "modeconfig": "NIC"}[r["type"]]
            chk(R["vpnconn_lan_type"] == exp_right_local, f"right local type {R['vpnconn_lan_type']} is not the counterpart of left remote {r['type']}")
            chk(R["vpnconn_peer_type"] == "IP", "right peer type")
            # order independence of connects_nodes
            for a1, a2 in itertools.combinations(net.nodes.values(), 2):
                pairs_checked += 1
                try:
                    c12, c21 = t.connects_nodes(a1, a2), t.connects_nodes(a2, a1)
                    chk(c12 == c21, f"connects_nodes({a1.name},{a2.name})={c12} but ({a2.name},{a1.name})={c21}")
                except Exception as e:  # noqa: BLE001
                    chk(False, f"connects_nodes raised {type(e).__name__}: {e}")
            # the end points themselves are connected
            chk(t.connects_nodes(node1, node2), "end points not connected")
            rep.distinct.add((net_name, n1, n2) + types + (p["nic"], l.get("nic"), r.get("nic"), (a or {}).get("left_id"), (a or {}).get("right_id")))
            if why:
                rep.violation(f"{net_name} {n1}->{n2} {types}: {why[0]}", dict(inp, problems=why[:5]),
                              {"kind": "mirror", "what": why[0].split(":")[0][:50] if "connects_nodes" not in why[0] else "connects_nodes asymmetric"})
            if cells % 97 == 0:
                rep.sample({"network": net_name, "left": n1, "right": n2, "types": list(types), "left_params": {k: v for k, v in L.items() if k.startswith("vpn")},
                            "right_params": {k: v for k, v in R.items() if k.startswith("vpn")}}, limit=3)
    rep.states = cells
    rep.evaluations = cells
    rep.traces_validated = rep.transitions
    rep.sections["connects_nodes_pairs"] = pairs_checked
    rep.bounds = {"networks": list(nets), "locals": [x["type"] for x in LOCALS], "remotes": [x["type"] for x in REMOTES], "peers": [x["type"] for x in PEERS]}
    rep.assumptions = ["inputs follow the calling convention of every caller in the repository (a 'nic' key accompanies the types that use one)",
                       "'random networks' of the quantifier are replaced by three enumerated topologies (separate LANs, a multi-homed host, a shared LAN)"]
    return rep.finish()


def replay(path: str) -> int:
    print(open(path).read())
    return 0
