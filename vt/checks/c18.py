"""C18 — the vm network model stays consistent and its address arithmetic is exact (E2).

BFS over operation sequences (reattach_interface, get_allocatable_address, change_network_address) on real VMNetwork objects rebuilt
from the history, an `ipaddress`-based invariant after every successful operation; exhaustive arithmetic tables for
netmask<->prefix and address translation.
"""
from __future__ import annotations

import collections
import ipaddress
import itertools
import json
import unittest.mock as mock

from vt import common


def build(cfg, ranges):
    from virttest import utils_params
    from avocado_i2n.vmnet import VMNetwork

    rp = utils_params.Params()
    rp["vms"] = " ".join(cfg)
    rp["mac"] = "00:00:00:00:00:00"
    rp["nic_roles"] = "internet_nic lan_nic"
    rp["internet_nic"] = "b1"
    rp["lan_nic"] = "b2"
    for vm, nics in cfg.items():
        rp[f"nics_{vm}"] = " ".join(nics)
        for nic, (ip, mask) in nics.items():
            rp[f"ip_{nic}_{vm}"] = ip
            rp[f"netmask_{nic}_{vm}"] = mask
            rp[f"netdst_{nic}_{vm}"] = "br" + str(ipaddress.ip_interface(f"{ip}/{mask}").network.network_address)
            rp[f"ip_provider_{nic}_{vm}"] = str(ipaddress.ip_interface(f"{ip}/{mask}").network.network_address + 1)
            r = ranges.get(str(ipaddress.ip_interface(f"{ip}/{mask}").network))
            if r:
                rp[f"range_{nic}_{vm}"] = r
    vms = {}
    env = mock.MagicMock()
    env.get_vm = lambda n: vms.get(n)

    def create_vm(t, tg, name, params, d):
        vm = mock.MagicMock(name=name)
        vm.name = name
        vm.params = params
        vms[name] = vm
        return vm

    env.create_vm = create_vm
    net = VMNetwork(rp, env)
    return net, vms


def invariant(net):
    errs = []
    seen = {}
    for key, iface in net.interfaces.items():
        owners = [nc for nc in net.netconfigs.values() if any(i is iface for i in nc.interfaces.values())]
        if len(owners) != 1:
            errs.append(f"{key} ({iface.ip}) registered in {len(owners)} network configurations")
        else:
            nc = owners[0]
            if ipaddress.ip_address(iface.ip) not in ipaddress.ip_network(f"{nc.net_ip}/{nc.netmask}", strict=False):
                errs.append(f"{key} address {iface.ip} outside its network {nc.net_ip}/{nc.netmask}")
            if iface.netconfig is not nc:
                errs.append(f"{key} points to another network configuration than the one registering it")
            keys = [k for k, i in nc.interfaces.items() if i is iface]
            if keys != [iface.ip]:
                errs.append(f"{key} registered under {keys} but its address is {iface.ip}")
        if iface.ip in seen:
            errs.append(f"duplicate address {iface.ip}: {key} and {seen[iface.ip]}")
        seen[iface.ip] = key
    for name, nc in net.netconfigs.items():
        if name != nc.net_ip:
            errs.append(f"network configuration {nc.net_ip} registered as {name}")
        for k, i in nc.interfaces.items():
            if not any(i is j for j in net.interfaces.values()):
                errs.append(f"network {nc.net_ip} registers an unknown interface under {k}")
    return errs


def canon(net):
    return json.dumps({"nets": {k: sorted(nc.interfaces) for k, nc in sorted(net.netconfigs.items())},
                       "ifaces": {k: i.ip for k, i in sorted(net.interfaces.items())},
                       "ranges": {k: sorted(a for a, u in nc.range.items() if u) for k, nc in sorted(net.netconfigs.items())}}, sort_keys=True)


def topologies(tier):
    m16, m24, m28, m30, m20 = "255.255.0.0", "255.255.255.0", "255.255.255.240", "255.255.255.252", "255.255.240.0"
    T = {
        "2vms-separate-lans/16": ({"vm1": {"b1": ("10.1.0.1", m16), "b2": ("172.17.0.1", m16)}, "vm2": {"b1": ("10.2.0.1", m16), "b2": ("172.18.0.1", m16)}}, "100-102"),
        "3vms-shared-wan-mixed-prefix": ({"vm1": {"b1": ("10.1.0.1", m16), "b2": ("172.17.0.1", m24)}, "vm2": {"b1": ("10.1.0.2", m16), "b2": ("172.17.0.2", m24)},
                                          "vm3": {"b1": ("10.1.0.3", m16), "b2": ("192.168.7.9", m30)}}, None),
        "2vms-3nics/28+/20": ({"vm1": {"b1": ("10.9.8.1", m28), "b2": ("172.16.32.1", m20), "b3": ("192.168.1.1", m24)},
                                "vm2": {"b1": ("10.9.8.2", m28), "b2": ("172.16.48.1", m20)}}, "5-7"),
        "1vm": ({"vm1": {"b1": ("10.1.0.1", m16), "b2": ("172.17.0.1", m24)}}, "100-101"),
        # several nics of one vm in one subnet that no earlier vm introduced
        "2vms-same-subnet-nics": ({"vm1": {"b1": ("10.1.0.1", m16), "b2": ("10.1.0.2", m16)}, "vm2": {"b1": ("10.1.0.3", m16), "b2": ("172.18.0.1", m24), "b3": ("172.18.0.2", m24)}}, "100-103"),
    }
    if tier == "thorough":
        T["4vms-chain"] = ({"vm1": {"b1": ("10.1.0.1", m16), "b2": ("172.17.0.1", m24)}, "vm2": {"b1": ("10.1.0.2", m16), "b2": ("172.18.0.1", m24)},
                            "vm3": {"b1": ("10.2.0.3", m16), "b2": ("172.18.0.3", m24)}, "vm4": {"b1": ("10.2.0.4", m16), "b2": ("172.19.0.4", m28)}}, None)
    out = {}
    for name, (cfg, rng) in T.items():
        ranges = {}
        for nics in cfg.values():
            for ip, mask in nics.values():
                netw = ipaddress.ip_interface(f"{ip}/{mask}").network
                if rng is not None:
                    ranges[str(netw)] = rng
                else:
                    ranges[str(netw)] = "2-2" if netw.prefixlen == 30 else ("5-7" if netw.prefixlen >= 28 else "100-102")
        out[name] = (cfg, ranges)
    return out


def run(tier: str, seed: int) -> int:
    common.bootstrap("mini")
    from avocado_i2n.vmnet.netconfig import VMNetconfig

    rep = common.Report("C18", tier, seed, "explicit-state BFS over operation sequences on the real VMNetwork vs ipaddress-based invariants; exhaustive arithmetic tables")
    rep.rule = ("states = canonical (registries, addresses, used ranges) reached by BFS over reattach/allocate/change-address operations replayed on freshly built real "
                "networks; arithmetic cells = all 33 prefix lengths, all host offsets of small subnets and boundary offsets of large ones; distinct = distinct states + cells")
    # ---------------- arithmetic -------------------------------------------------------------
    cells = 0
    for bits in range(0, 33):
        cells += 1
        nc = VMNetconfig()
        nc.net_ip = "10.0.0.0"
        nc.mask_bit = str(bits)
        mask = str(ipaddress.ip_network(f"0.0.0.0/{bits}").netmask)
        if nc.netmask != mask or nc.mask_bit != str(bits):
            rep.violation(f"prefix length {bits}: netmask {nc.netmask} (expected {mask}), back-conversion {nc.mask_bit}", {"bits": bits}, {"part": "mask", "bits": bits})
        nc2 = VMNetconfig()
        nc2.netmask = mask
        if nc2.mask_bit != str(bits):
            rep.violation(f"netmask {mask} converts to prefix {nc2.mask_bit}, expected {bits}", {"mask": mask}, {"part": "mask-back", "bits": bits})
        rep.distinct.add(("mask", bits))
    bases = [("10.16.0.0", "192.168.0.0"), ("172.16.32.0", "10.99.64.0"), ("10.200.7.16", "10.1.3.128")]
    for bits in (8, 16, 20, 24, 27, 28, 29, 30):
        for base, nat in bases:
            net = ipaddress.ip_network(f"{base}/{bits}", strict=False)
            natnet = ipaddress.ip_network(f"{nat}/{bits}", strict=False)
            nc = VMNetconfig()
            nc.net_ip = str(net.network_address)
            nc.netmask = str(net.netmask)
            n = net.num_addresses
            offs = range(n) if n <= 32 else sorted({0, 1, 2, 255, 256, n // 2, n - 2, n - 1} & set(range(n)))
            for off in offs:
                src = str(net.network_address + off)
                for natref in {str(natnet.network_address), str(natnet.network_address + 1), str(natnet.network_address + natnet.num_addresses - 1)}:
                    cells += 1
                    got = nc.translate_address(src, natref)
                    if got != str(natnet.network_address + off):
                        rep.violation(f"translate_address({src}, {natref}) in {net} = {got}, expected {natnet.network_address + off}",
                                      {"src": src, "nat": natref, "net": str(net)}, {"part": "translate", "bits": bits})
                    rep.distinct.add(("tr", bits, base, off))
    # conversions along a history on ONE object: every ordered pair of prefix lengths, each set through either attribute, read back through both
    hist = 0
    for a in range(0, 33):
        for b in range(0, 33):
            if a == b:
                continue
            for set_a, set_b in (("bits", "bits"), ("bits", "mask"), ("mask", "bits"), ("mask", "mask")):
                hist += 1
                nc = VMNetconfig()
                nc.net_ip = "0.0.0.0"  # (the prefix setter needs a network address; 0.0.0.0 is one for every prefix length)
                ma = str(ipaddress.ip_network(f"0.0.0.0/{a}").netmask)
                mb = str(ipaddress.ip_network(f"0.0.0.0/{b}").netmask)
                if set_a == "bits":
                    nc.mask_bit = str(a)
                else:
                    nc.netmask = ma
                first = (str(nc.mask_bit), nc.netmask)
                if set_b == "bits":
                    nc.mask_bit = str(b)
                else:
                    nc.netmask = mb
                second = (str(nc.mask_bit), nc.netmask)
                if first != (str(a), ma) or second != (str(b), mb):
                    rep.violation(f"prefix/netmask after setting /{a} (via {set_a}) then /{b} (via {set_b}): read {first} then {second}, expected {(str(a), ma)} then {(str(b), mb)}",
                                  {"a": a, "b": b, "set": [set_a, set_b]}, {"part": "mask-history", "set": set_a + ">" + set_b})
    cells += hist
    rep.sections["mask_history_cells"] = hist
    rep.sections["arithmetic_cells"] = cells
    rep.sample({"translate": {"net": "10.200.7.16/28", "host": "10.200.7.21", "target": "10.1.3.128", "expected": "10.1.3.133"}})

    # ---------------- construction + BFS over operation sequences -----------------------------
    depth = 3 if tier == "quick" else 4
    total_states = total_trans = 0
    for tname, (cfg, ranges) in topologies(tier).items():
        try:
            net, vms = build(cfg, ranges)
        except Exception as e:  # noqa: BLE001
            import traceback

            frames = traceback.extract_tb(e.__traceback__)
            if not frames or "/vt/" in frames[-1].filename:
                raise  # the harness's own mistake
            rep.violation(f"[{tname}] building the network from valid parameters failed with {type(e).__name__}: {e}", {"topology": tname, "cfg": cfg},
                          {"part": "build", "what": type(e).__name__})
            continue
        errs = invariant(net)
        if errs:
            rep.violation(f"[{tname}] built network is inconsistent: {errs[0]}", {"topology": tname, "cfg": cfg}, {"part": "build", "what": errs[0].split(" ")[1][:20]})
        names = list(cfg)
        ops = [("reattach", c, s) for c, s in itertools.permutations(names, 2)]
        ops += [("allocate", n_, "b2") for n_ in names[:2]]
        # change_network_address is not part of the statement (it resets the allocation range): not in the alphabet
        seen = {canon(net)}
        frontier = collections.deque([()])
        while frontier:
            hist = frontier.popleft()
            if len(hist) >= depth:
                continue
            for op in ops:
                new_hist = hist + (op,)
                net, vms = build(cfg, ranges)
                ok = True
                last_err = None
                for o in new_hist:
                    try:
                        apply_op(net, vms, o)
                    except IndexError as e:
                        ok = False  # documented exhaustion: the statement promises nothing afterwards
                        last_err = ("exhausted", str(e))
                        break
                    except Exception as e:  # noqa: BLE001
                        ok = False
                        last_err = ("exception", f"{type(e).__name__}: {e}")
                        break
                total_trans += 1
                if not ok:
                    if last_err[0] == "exception":
                        rep.violation(f"[{tname}] after {list(new_hist)}: {last_err[1]}", {"topology": tname, "ops": [list(o) for o in new_hist]},
                                      {"part": "sequence", "what": last_err[1].split(":")[0]})
                    continue
                errs = invariant(net)
                if errs:
                    rep.violation(f"[{tname}] after {list(new_hist)}: {errs[0]}", {"topology": tname, "ops": [list(o) for o in new_hist], "problems": errs[:4]},
                                  {"part": "sequence", "what": " ".join(errs[0].split(" ")[2:5])})
                key = canon(net)
                if key not in seen:
                    seen.add(key)
                    frontier.append(new_hist)
                    rep.distinct.add((tname, key))
        total_states += len(seen)
        # allocation: every address of the range once, then exhaustion
        net, vms = build(cfg, ranges)
        for nc in net.netconfigs.values():
            got = []
            try:
                for _ in range(len(nc.range) + 3):
                    got.append(nc.get_allocatable_address())
                rep.violation(f"[{tname}] allocation from {nc.net_ip} never reports exhaustion", {"topology": tname}, {"part": "alloc", "what": "no exhaustion"})
            except IndexError:
                pass
            # the configured pool "A-B" is inclusive on both ends (every address of the configured range), read from the input not from the object
            conf = ranges.get(str(ipaddress.ip_network(f"{nc.net_ip}/{nc.mask_bit}", strict=False)), "100-200")
            a_, b_ = (int(x) for x in conf.split("-"))
            taken = {int(ipaddress.ip_address(i.ip)) - int(ipaddress.ip_address(nc.net_ip)) for i in nc.interfaces.values()}
            exp = [str(ipaddress.ip_address(nc.net_ip) + i) for i in range(a_, b_ + 1) if i not in taken]
            total_trans += len(got) + 1
            if got != exp:
                rep.violation(f"[{tname}] allocation from {nc.net_ip} handed out {got}, expected {exp}", {"topology": tname, "got": got, "expected": exp}, {"part": "alloc", "what": "wrong addresses"})
        rep.sections.setdefault("topologies", {})[tname] = {"states": len(seen), "operations": [list(o) for o in ops]}
    rep.sample({"topology": "2vms-separate-lans/16", "ops": [["reattach", "vm1", "vm2"], ["reattach", "vm1", "vm2"]], "expected": "vm1.b1 registered once, under its new address"})
    rep.states = total_states + cells
    rep.transitions = total_trans + cells
    rep.evaluations = total_trans + cells
    rep.traces_validated = total_trans
    rep.bounds = {"depth": depth, "topologies": list(topologies(tier)), "vms": "1..3 (thorough 4)", "nics": "2..3"}
    rep.assumptions = ["DHCP ranges lie inside the subnet and are disjoint from statically configured addresses (other configurations are user errors)",
                       "the invariant is evaluated after successful operations only; the documented range-exhaustion error ends a sequence",
                       "the proxy-arp variant of reattach_interface is not part of the statement (its TODO says it invalidates the reference interface's registry)",
                       "random subnets of the quantifier are replaced by an enumerated family of prefixes /8../30"]
    return rep.finish()


def apply_op(net, vms, op):
    kind, a, b = op
    if kind == "reattach":
        net.reattach_interface(vms[a], vms[b])
    elif kind == "allocate":
        net.interfaces[f"{a}.{b}"].netconfig.get_allocatable_address()
    elif kind == "change":
        nc = net.interfaces[f"{a}.{b}"].netconfig
        target = ipaddress.ip_network(f"{nc.net_ip}/{nc.netmask}", strict=False)
        new_net = ipaddress.ip_address("10.77.0.0") if target.prefixlen <= 16 else ipaddress.ip_address("10.77.5.0")
        new_ip = str(ipaddress.ip_network(f"{new_net}/{target.prefixlen}", strict=False).network_address)
        with mock.patch.object(type(net), "_reconfigure_vm_nic", lambda self, i, p: None):
            net.change_network_address(nc, new_ip, nc.netmask)


def replay(path: str) -> int:
    print(open(path).read())
    return 0
