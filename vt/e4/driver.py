"""Shared driver for the parser checks: parse every input in worker processes, run one oracle on the facts."""
from __future__ import annotations

import json
import time

from vt import common
from vt.e4 import parsemc

_universe = None


def universe():
    global _universe
    if _universe is None:
        from avocado_i2n.cartgraph import TestGraph

        _universe = [{"name": n.params["name"], "restrs": dict(n.restrs)} for n in TestGraph.parse_flat_nodes("all")]
    return _universe


def parse_eager(inp):
    from avocado_i2n.cartgraph import TestGraph

    params = {"nets": inp["nets"], "shared_pool": "/mnt/local/images/shared"}
    params.update(inp.get("params", {}))
    return TestGraph.parse_object_trees(None, inp["restriction"], "", dict(inp["vm_strs"]), params)


def parse_lazy_complete(inp):
    """Lazy parsing driven to completion by a dry-run traversal of the real code (default schedule)."""
    from vt.e1 import engine

    scn = engine.Scenario("lazy:" + inp["id"], inp["restriction"], inp["nets"], lazy=True, vm_strs=dict(inp["vm_strs"]), params={"dry_run": "yes"},
                          suite="mini" + ("+" + inp["variant"] if inp.get("variant") else ""))
    x = engine.execute(scn, [], keep_graph=True)
    return x


def analyse(job):
    inp, mode = job
    from avocado_i2n import params_parser as param

    t0 = time.time()
    out = {"id": inp["id"], "errors": [], "nodes": 0, "skipped": None, "composites": 0, "clone_sources": 0, "workers": len(inp["nets"].split())}
    try:
        g = parse_eager(inp)
    except param.EmptyCartesianProduct:
        out["skipped"] = "empty Cartesian product (no test compatible with the selection)"
        return out
    except Exception as e:  # noqa: BLE001
        out["errors"].append(("parse-exception", f"parsing failed with {type(e).__name__}: {str(e)[:200]}"))
        return out
    facts = parsemc.graph_facts(g)
    out["nodes"] = len(facts["nodes"])
    out["composites"] = sum(1 for n in facts["nodes"] if not n["flat"])
    out["clone_sources"] = sum(1 for n in facts["nodes"] if n["clone_source"])
    out["multi_object_edges"] = sum(1 for n in facts["nodes"] for objs in n["setup"].values() if len(objs) > 1)
    if mode == "C06":
        out["errors"] += parsemc.wellformed(facts)
        # lazy parsing must produce a well-formed graph as well
        try:
            x = parse_lazy_complete(inp)
            if x.exc:
                out["errors"].append(("lazy-exception", f"lazy expansion failed: {x.exc}"))
            else:
                lf = parsemc.graph_facts(x.graph)
                out["errors"] += [("lazy-" + k, "lazy: " + m) for k, m in parsemc.wellformed(lf) if k not in ("unreachable",)]
                out["lazy_nodes"] = len(lf["nodes"])
        except param.EmptyCartesianProduct:
            pass
    elif mode == "C07":
        out["errors"] += parsemc.declared(facts, universe())
        # the graph expanded on demand during a traversal must contain exactly the declared dependencies as well (none duplicated per worker)
        try:
            x = parse_lazy_complete(inp)
            if x.exc:
                out["errors"].append(("lazy-exception", f"lazy expansion failed: {x.exc}"))
            else:
                lf = parsemc.graph_facts(x.graph)
                out["errors"] += [("lazy-" + k, "expanded on demand: " + m) for k, m in parsemc.declared(lf, universe())]
                out["lazy_nodes"] = len(lf["nodes"])
        except param.EmptyCartesianProduct:
            pass
    elif mode == "C09":
        out["errors"] += parsemc.copies(facts)
        g2 = parse_eager(inp)
        if parsemc.canonical_dump(parsemc.graph_facts(g2)) != parsemc.canonical_dump(facts):
            out["errors"].append(("nondeterministic", "parsing the same input twice gives different graphs"))
        try:
            x = parse_lazy_complete(inp)
            if x.exc:
                out["errors"].append(("lazy-exception", f"lazy expansion failed: {x.exc}"))
            else:
                out["errors"] += lazy_vs_eager(parsemc.graph_facts(x.graph), facts)
        except param.EmptyCartesianProduct:
            pass
    out["wall"] = round(time.time() - t0, 1)
    out["errors"] = [list(e) for e in out["errors"][:12]]
    return out


def lazy_vs_eager(lazy, eager):
    """Compare modulo the test-set variant a node happens to be named after (leaves.X / all.X are the same test X: which one names the node
    depends on whether the test was first met as a selected leaf or as a dependency)."""
    ss = parsemc.strip_set
    errs = []
    e_by = {ss(n["name"]): n for n in eager["nodes"] if not n["flat"] and not n["shared_root"]}
    l_by = {ss(n["name"]): n for n in lazy["nodes"] if not n["flat"] and not n["shared_root"]}
    e_names = {n["name"]: n for n in eager["nodes"]}
    l_names = {n["name"]: n for n in lazy["nodes"]}
    # the same test (modulo the set it is named after) must not be expanded into two nodes for one worker unless the complete parse has two as well
    import collections as _c

    cnt_l = _c.Counter(ss(n["name"]) for n in lazy["nodes"] if not n["flat"] and not n["shared_root"])
    cnt_e = _c.Counter(ss(n["name"]) for n in eager["nodes"] if not n["flat"] and not n["shared_root"])
    for name, c in sorted(cnt_l.items()):
        if c > max(cnt_e.get(name, 0), 1):
            errs.append(("lazy-duplicate", f"{name} exists {c} times after lazy expansion, {cnt_e.get(name, 0)} times in the complete parse"))
    for name, ln in l_by.items():
        en = e_by.get(name)
        if en is None:
            errs.append(("lazy-extra", f"lazily expanded {name} does not exist in the complete parse"))
            continue
        if ln["clone_source"] or en["clone_source"]:
            continue  # a clone source keeps an arbitrary first producer and is never run: its clones are compared instead
        ls = sorted((ss(p), tuple(o)) for p, o in ln["setup"].items() if not l_names.get(p, {}).get("flat") and not l_names.get(p, {}).get("shared_root"))
        es = sorted((ss(p), tuple(o)) for p, o in en["setup"].items() if not e_names.get(p, {}).get("flat") and not e_names.get(p, {}).get("shared_root"))
        if ls != es:
            errs.append(("lazy-deps", f"{name}: dependencies after lazy expansion {ls[:2]} differ from the complete parse {es[:2]}"))
    inv = lambda names: {parsemc.worker_invariant(n, "") for n in names}
    missing = inv(e_by) - inv(l_by)
    if missing:
        errs.append(("lazy-missing", f"{len(missing)} tests of the complete parse were expanded by no worker, e.g. {sorted(missing)[0]}"))
    return errs


_eager_facts = {}


def c09dyn(scn, x):
    """Monitor for lazy scenarios under arbitrary schedules: the expanded graph agrees with the complete parse, copies are linked and share bookkeeping."""
    if x.exc:
        return [{"what": f"lazy traversal failed: {x.exc}", "signature": {"clause": "lazy-exception"}}]
    key = scn.parse_key()
    if key not in _eager_facts:
        g = parse_eager({"restriction": scn.restriction if "only " in scn.restriction else f"only {scn.restriction}\n", "vm_strs": scn.vm_strs, "nets": scn.nets})
        _eager_facts[key] = parsemc.graph_facts(g)
    lazy = parsemc.graph_facts(x.graph)
    out = []
    for kind, msg in lazy_vs_eager(lazy, _eager_facts[key]):
        out.append({"what": msg, "signature": {"clause": kind}})
    for kind, msg in parsemc.copies(lazy):
        if kind in ("edges-differ", "not-linked", "link-asymmetric", "bookkeeping-not-shared", "link-wrong"):
            out.append({"what": "after lazy expansion: " + msg, "signature": {"clause": "lazy-" + kind}})
    return out


def run_parse_check(prop, tier, seed, technique, rule, assumptions):
    common.bootstrap("mini")
    from vt.e1 import engine

    engine.install_memo()
    universe()
    rep = common.Report(prop, tier, seed, technique)
    rep.rule = rule
    rep.assumptions = list(assumptions)
    ins = parsemc.inputs(tier)
    if seed:
        import random

        random.Random(seed).shuffle(ins)
    budget = common.budget(tier, 420, 2400)
    t_end = time.time() + budget
    done = 0
    per = []
    for res in common.pimap_unordered(analyse, [(i, prop) for i in ins]):
        done += 1
        rep.evaluations += 1
        rep.transitions += max(res["nodes"], 1)
        rep.states += res["nodes"]
        if res["skipped"]:
            per.append({"input": res["id"], "skipped": res["skipped"]})
            continue
        rep.traces_validated += 1
        rep.distinct.add((res["id"], res["nodes"], res["composites"]))
        per.append({"input": res["id"], "nodes": res["nodes"], "composite": res["composites"], "clone_sources": res["clone_sources"], "wall_s": res.get("wall"),
                    "problems": len(res["errors"])})
        for kind, msg in res["errors"]:
            rep.violation(f"[{res['id']}] {msg}", {"input": res["id"], "kind": kind, "message": msg}, {"kind": kind})
        if len(rep.samples) < 3 and res["nodes"]:
            rep.sample({"input": res["id"], "nodes": res["nodes"], "composite_nodes": res["composites"], "clone_sources": res["clone_sources"]})
    # suite variants: the same oracles on the suite customised through the user's overwrite config (graph shapes the sample suite lacks)
    global _universe
    vrows = []
    for vname, vtext, _ in parsemc.SUITE_VARIANTS:
        common.bootstrap("mini", tests_overwrite=vtext)
        _universe = None
        universe()
        vins = [i for i in parsemc.variant_inputs(tier) if i["variant"] == vname]
        for res in common.pimap_unordered(analyse, [(i, prop) for i in vins]):
            rep.evaluations += 1
            rep.transitions += max(res["nodes"], 1)
            rep.states += res["nodes"]
            if res["skipped"]:
                vrows.append({"input": res["id"], "skipped": res["skipped"]})
                continue
            rep.traces_validated += 1
            rep.distinct.add((res["id"], res["nodes"], res["composites"]))
            vrows.append({"input": res["id"], "nodes": res["nodes"], "composite": res["composites"], "multi_object_edges": res.get("multi_object_edges"),
                          "problems": len(res["errors"])})
            for kind, msg in res["errors"]:
                rep.violation(f"[{res['id']}] {msg}", {"input": res["id"], "kind": kind, "message": msg}, {"kind": kind})
    common.bootstrap("mini")
    _universe = None
    universe()
    rep.sections["suite_variants"] = vrows
    if prop == "C09":
        # lazy expansion under all schedules within k deviations (the order in which workers unroll flat tests is the traversal schedule)
        from vt.e1 import scenarios as S

        ggall = engine.Scenario("GGall:net1+net2/lazy", "only leaves\nonly tutorial_gui,tutorial_get\n", "net1 net2", lazy=True)
        # selections mixing primary test sets (a test reachable both as a selected leaf of one set and as a dependency named after another)
        mixed = [engine.Scenario(f"MIX[{a}+{b}]:net1+net2/lazy", f"only {a},{b}\n", "net1 net2", lazy=True)
                 for a, b in (("normal..client_clicked", "leaves..explicit_clicked"), ("normal..client_noop", "leaves..explicit_noop"),
                              ("normal..tutorial1", "leaves..tutorial2.files"), ("normal..tutorial_gui", "all..tutorial_get.implicit_both"),
                              ("minimal..tutorial1", "normal..tutorial2.names"))]
        dyn = [(S.T2(lazy=True), 1), (S.T3(lazy=True), 1), (S.G1(), 1 if tier == "quick" else 2), (S.G2(), 1 if tier == "quick" else 2),
               (ggall, 0 if tier == "quick" else 1), (S.T2("net1 net2 net3", lazy=True), 1)] + [(m, 1) for m in mixed]
        dyn_rows = []
        for scn, k in dyn:
            scn.keep_graph = True
            scn.params["dry_run"] = "no"
            res = engine.explore(scn, c09dyn, k, time.time() + (120 if tier == "quick" else 900), seed)
            rep.evaluations += res.executions
            rep.traces_validated += res.executions
            rep.transitions += res.transitions
            rep.states += len(res.histories)
            for sig in res.outcomes:
                rep.distinct.add((scn.name, sig))
            seen = set()
            for v in res.violations:
                kk = json.dumps(v["signature"], sort_keys=True)
                if kk in seen:
                    continue
                seen.add(kk)
                rep.violation(f"[{scn.name}] {v['what']}", v["replay"], dict(v["signature"], scenario=scn.name.split(":")[0]))
            dyn_rows.append({"scenario": scn.name, "k": k, "executions": res.executions, "complete": res.complete, "distinct_outcomes": len(res.outcomes)})
            if not res.complete:
                rep.exhaustive = False
        rep.sections["lazy_under_schedules"] = dyn_rows
    rep.sections["inputs"] = sorted(per, key=lambda r: r["input"])
    rep.bounds = {"inputs": len(ins), "workers": "1-3", "suite": "mini (shipped sets/groups/nets/vms configs, trimmed guest configs)"}
    rep.extra["inputs_skipped_empty"] = sum(1 for p in per if p.get("skipped"))
    return rep.finish()
