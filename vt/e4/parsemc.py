"""E4 `parsemc` — exhaustive enumeration of parser inputs with independent oracles (C06, C07, C09).

Each input (restriction, per-vm restrictions, worker set) is parsed by the real code in a worker process; the graph is reduced to
plain facts there (graphs cannot be pickled) and the oracles run on the facts:
 * wellformed(facts)             — C06: own graph walk
 * declared(facts, universe)     — C07: independent resolver over the flat Cartesian variants
 * copies(facts)                 — C09 static: per-worker equivalence, bridging, shared registers
"""
from __future__ import annotations

import collections
import json
import re

MAIN_SETS = ("all", "nonleaves", "leaves", "normal.gui", "normal.nongui", "normal", "minimal")
DEFAULT_VMS = {"vm1": "only CentOS\n", "vm2": "only Win10\n", "vm3": "only Ubuntu\n"}


def inputs(tier):
    q = tier == "quick"
    restrs = [
        ("T1", "only normal..tutorial1\n"), ("T12", "only normal\nonly tutorial1,tutorial2\n"), ("T3", "only normal..tutorial3\n"),
        ("GUI", "only leaves..tutorial_gui\n"), ("GET", "only leaves..tutorial_get\n"), ("FIN", "only leaves..tutorial_finale\n"),
        ("MIN", "only minimal\n"), ("NORMAL", "only normal\n"), ("GG", "only leaves\nonly tutorial_gui,tutorial_get\n"),
        ("MIXED", "only normal..tutorial_gui,leaves..tutorial_get.explicit_noop\n"), ("MIXED2", "only normal..tutorial_gui,leaves..tutorial_get.implicit_both\n"),
    ]
    if not q:
        restrs += [("LEAVES", "only leaves\n"), ("T13", "only normal\nonly tutorial1,tutorial3\n"),
                   ("REMOTE", "only leaves..tutorial3.remote\n"), ("NOOPCHAIN", "only leaves..tutorial_gui.client_noop,leaves..tutorial_get.explicit_noop\n")]
    vmsets = [("default", DEFAULT_VMS), ("any-vm1-vm2", {"vm1": "", "vm2": "", "vm3": "only Ubuntu\n"}),
              ("fedora-win7", {"vm1": "only Fedora\n", "vm2": "only Win7\n", "vm3": "only Ubuntu\n"}),
              # the same variants spelled through other components of their names (a test's own restriction lines may contain these words)
              ("centos-by-driver", {"vm1": "only qemu_kvm_centos\n", "vm2": "only qemu_kvm_windows_10\n", "vm3": "only Ubuntu\n"}),
              ("linux-windows", {"vm1": "only Linux\n", "vm2": "only Windows\n", "vm3": "only Ubuntu\n"})]
    if not q:
        vmsets += [("any", {"vm1": "", "vm2": "", "vm3": ""}), ("fedora-win10-kali", {"vm1": "only Fedora\n", "vm2": "only Win10\n", "vm3": "only Kali\n"})]
    netsets = ["net1", "net1 net2", "net1 net3 net5", "cluster1.net6 cluster2.net7", "net0", "net5 net1"]
    if not q:
        netsets += ["net3", "net1 net2 net3", "cluster1.net6 cluster1.net7 cluster2.net6", "net2 net4"]
    out = []
    for (rn, r) in restrs:
        for (vn, v) in vmsets:
            for nets in netsets:
                if q:
                    # quick: a covering selection, not the full product
                    heavy = rn in ("NORMAL", "FIN", "GET", "GG", "MIXED", "MIXED2")
                    if vn != "default" and nets not in ("net1", "net1 net3 net5", "net5 net1"):
                        continue
                    if nets == "net5 net1" and (vn != "any-vm1-vm2" or rn not in ("T1", "T3", "T12")):
                        continue
                    if heavy and (vn != "default" or nets not in ("net1", "net1 net2")):
                        continue
                    if nets in ("net0", "cluster1.net6 cluster2.net7") and rn not in ("T1", "T3", "GUI"):
                        continue
                out.append({"id": f"{rn}/{vn}/{nets.replace(' ', '+')}", "restriction": r, "vm_strs": v, "nets": nets})
    # every pair of leaf tests (a dependant selected together with exactly one of its producers, siblings sharing setup, ...)
    leaf_tests = ["quicktest.tutorial1", "quicktest.tutorial2.files", "tutorial3.no_remote", "tutorial_gui.client_noop", "tutorial_gui.client_clicked",
                  "tutorial_get.explicit_noop", "tutorial_get.explicit_clicked", "tutorial_get.implicit_both", "tutorial_finale"]
    import itertools as _it
    for a, b in _it.combinations(leaf_tests, 2):
        for nets in (("net1",) if q else ("net1", "net1 net2")):
            out.append({"id": f"PAIR[{a}+{b}]/default/{nets.replace(' ', '+')}", "restriction": f"only leaves..{a},leaves..{b}\n", "vm_strs": DEFAULT_VMS, "nets": nets})
    if q:
        # three workers on the deeply cloned selections (every pair of copies must be linked, not only a star around the first)
        for rn in ("FIN", "GET", "T12"):
            r = dict(restrs)[rn]
            out.append({"id": f"{rn}/default/net1+net2+net3", "restriction": r, "vm_strs": DEFAULT_VMS, "nets": "net1 net2 net3"})
    return out


# Suite variants: the shipped/mini suite customised the way a user does it (~/avocado_overwrite_tests.cfg), to reach graph shapes the sample
# suite does not contain.  Each variant: (name, overwrite text, inputs)
SUITE_VARIANTS = [
    ("multi-object-edge",
     "tutorial_gui.client_clicked:\n    set_state_images_vm1 = guisetup1.clicked\n"
     "tutorial_get.explicit_clicked:\n    get_images_vm1 = tutorial_gui.client_clicked\n    get_state_images_vm1 = guisetup1.clicked\n",
     [("XC", "only leaves..tutorial_get.explicit_clicked\n"), ("XGG", "only leaves\nonly tutorial_gui,tutorial_get\n")]),
    ("two-setups-one-vm",
     # a leaf that takes its vm state and its image state from two different setup tests of the same vm
     "quicktest.tutorial1:\n    get_images = connect\n    get_state_images = connect\n",
     [("XT1", "only normal..tutorial1\n"), ("XT12", "only normal\nonly tutorial1,tutorial2\n")]),
]


def variant_inputs(tier):
    out = []
    for name, text, restrs in SUITE_VARIANTS:
        for rn, r in restrs:
            for nets in ("net1", "net1 net2"):
                out.append({"id": f"{rn}@{name}/default/{nets.replace(' ', '+')}", "restriction": r, "vm_strs": DEFAULT_VMS, "nets": nets, "variant": name})
    return out


# ------------------------------------------------------------------------------------------------
# facts
# ------------------------------------------------------------------------------------------------
def node_facts(n, regs_index):
    flat = n.is_flat()
    objs = []
    if not flat:
        for o in n.objects:
            op = o.object_typed_params(n.params)
            objs.append({"key": o.key, "long_suffix": o.long_suffix, "suffix": o.suffix, "id": o.id, "form": o.component_form,
                         "get": op.get("get"), "get_state": op.get("get_state"), "set_state": op.get("set_state"),
                         "permanent": o.is_permanent()})

    def reg_id(r):
        return regs_index.setdefault(id(r), len(regs_index))

    def edge(d):
        return {k.params["name"] + "#" + k.prefix if False else k.params["name"]: sorted(x.long_suffix for x in v) for k, v in d.items()}

    return {
        "name": n.params["name"], "id": n.id, "prefix": n.prefix, "flat": flat, "shared_root": n.is_shared_root(),
        "object_root": n.params.get("object_root"), "clone_source": len(n.cloned_nodes) > 0, "clones": [c.params["name"] for c in n.cloned_nodes],
        "nets": n.params.get("nets"), "vms_param": n.params.objects("vms") if not flat else [], "objects": objs,
        "setup": edge(n.setup_nodes), "cleanup": edge(n.cleanup_nodes), "bridged": sorted(b.params["name"] for b in n.bridged_nodes),
        "regs": [reg_id(n._picked_by_setup_nodes), reg_id(n._dropped_setup_nodes), reg_id(n._picked_by_cleanup_nodes), reg_id(n._dropped_cleanup_nodes)],
        "setless": n.setless_form, "restrs": dict(n.restrs), "incompatible": sorted(n.incompatible_workers),
        "setup_ids": sorted(k.id for k in n.setup_nodes), "n_setup": len(n.setup_nodes),
    }


def graph_facts(g, swarms=None):
    regs = {}
    nodes = [node_facts(n, regs) for n in g.nodes]
    workers = {}
    for wid, w in g.workers.items():
        workers[wid] = {"restrs": {k: v for k, v in w.restrs.items() if v}, "name": w.params["name"], "swarm": w.swarm_id}
    clone_runnable = []
    for n in g.nodes:
        if len(n.cloned_nodes) > 0 and not n.is_flat():
            w = next((w for w in g.workers.values() if w.id in n.params["name"]), None)
            if w is not None:
                try:
                    if n.should_run(w):
                        clone_runnable.append(n.params["name"])
                except Exception as e:  # noqa: BLE001
                    clone_runnable.append(n.params["name"] + f" ({type(e).__name__})")
    return {"nodes": nodes, "workers": workers, "clone_sources_runnable": clone_runnable}


def canonical_dump(facts):
    """Order-independent dump used for the determinism comparison."""
    return json.dumps(sorted((n["id"], n["flat"], sorted(n["setup"].items()), sorted(n["cleanup"].items()), n["bridged"], n["clone_source"], n["clones"]) for n in facts["nodes"]), sort_keys=True)


# ------------------------------------------------------------------------------------------------
# C06: well-formedness
# ------------------------------------------------------------------------------------------------
def wellformed(facts):
    errs = []
    nodes = facts["nodes"]
    by_name = {}
    for n in nodes:
        if n["name"] in by_name:
            errs.append(("duplicate-name", f"two nodes named {n['name']}"))
        by_name[n["name"]] = n
    ids = collections.Counter(n["id"] for n in nodes)
    for i, c in ids.items():
        if c > 1:
            errs.append(("duplicate-id", f"{c} nodes with identity {i}"))
    roots = [n for n in nodes if n["shared_root"]]
    if len(roots) != 1:
        errs.append(("roots", f"{len(roots)} starting nodes"))
    for n in nodes:
        for p, objs in n["setup"].items():
            if p not in by_name:
                errs.append(("dangling", f"{n['name']} depends on {p} which is not in the graph"))
            elif by_name[p]["cleanup"].get(n["name"]) != objs:
                errs.append(("one-sided", f"dependency {n['name']} -> {p} recorded as {objs} on the child and {by_name[p]['cleanup'].get(n['name'])} on the parent"))
        for c, objs in n["cleanup"].items():
            if c not in by_name:
                errs.append(("dangling", f"{n['name']} has dependant {c} which is not in the graph"))
            elif by_name[c]["setup"].get(n["name"]) != objs:
                errs.append(("one-sided", f"dependency {c} -> {n['name']} recorded as {objs} on the parent and {by_name[c]['setup'].get(n['name'])} on the child"))
    # acyclic + reachable
    color = {}
    if roots:
        stack = [(roots[0]["name"], iter(sorted(roots[0]["cleanup"])))]
        color[roots[0]["name"]] = 1
        while stack:
            name, it = stack[-1]
            nxt = next(it, None)
            if nxt is None:
                color[name] = 2
                stack.pop()
                continue
            if nxt not in by_name:
                continue
            if color.get(nxt) == 1:
                errs.append(("cycle", f"cycle through {nxt}"))
            elif nxt not in color:
                color[nxt] = 1
                stack.append((nxt, iter(sorted(by_name[nxt]["cleanup"]))))
        unreach = [n["name"] for n in nodes if n["name"] not in color]
        if unreach:
            errs.append(("unreachable", f"{len(unreach)} nodes not reachable from the starting node, e.g. {unreach[0]}"))
    for n in nodes:
        if n["flat"] or n["shared_root"]:
            continue
        nets = [o for o in n["objects"] if o["key"] == "nets"]
        if len(nets) != 1 or n["objects"][0]["key"] != "nets":
            errs.append(("nets", f"{n['name']} uses {len(nets)} network objects / not first"))
        vms = sorted(o["suffix"] for o in n["objects"] if o["key"] == "vms")
        if vms != sorted(n["vms_param"]):
            errs.append(("vms", f"{n['name']} has vm objects {vms} but its parameters name {n['vms_param']}"))
        if n["clone_source"]:
            continue
        for o in n["objects"]:
            if o["key"] == "nets" or not o["get"]:
                continue
            parents = [p for p, objs in n["setup"].items() if o["long_suffix"] in objs]
            if len(parents) != 1:
                errs.append(("parents", f"{n['name']} has {len(parents)} parents for {o['long_suffix']} (needs state {o['get_state']}): {parents[:3]}"))
                continue
            p = by_name.get(parents[0])
            if p is None or p["flat"]:
                errs.append(("parents", f"{n['name']}: parent {parents[0]} for {o['long_suffix']} is not a composite node"))
                continue
            po = [x for x in p["objects"] if x["long_suffix"] == o["long_suffix"]]
            if not po:
                errs.append(("parent-object", f"{n['name']}: parent {p['name']} does not work on {o['long_suffix']}"))
                continue
            if po[0]["id"] != o["id"]:
                errs.append(("parent-variant", f"{n['name']}: parent {p['name']} works on another variant of {o['long_suffix']} ({po[0]['id']} vs {o['id']})"))
            if o["get_state"] not in ("0root", "", None) and po[0]["set_state"] != o["get_state"]:
                errs.append(("parent-state", f"{n['name']} needs {o['get_state']} of {o['long_suffix']} but its parent {p['name']} produces {po[0]['set_state']}"))
            if p["nets"] != n["nets"]:
                errs.append(("parent-worker", f"{n['name']} ({n['nets']}) depends on {p['name']} of another worker ({p['nets']})"))
    for name in facts["clone_sources_runnable"]:
        errs.append(("clone-runnable", f"clone source {name} is runnable"))
    # a test that serves as setup of another test must not exist a second time for the same worker under another test-set name
    groups = collections.defaultdict(list)
    for n in nodes:
        if not n["flat"] and not n["shared_root"]:
            groups[(n["nets"], strip_set(n["name"]))].append(n)
    for (w, nm), members in groups.items():
        if len(members) > 1 and any(any(not by_name.get(c, {}).get("flat", True) for c in m["cleanup"]) for m in members):
            errs.append(("duplicate-test", f"{nm} exists {len(members)} times for worker {w} ({[m['name'].split('.vms.')[0] for m in members]}) although it serves as setup of another test"))
    return errs


# ------------------------------------------------------------------------------------------------
# C07: exactness against the declared configuration
# ------------------------------------------------------------------------------------------------
def match_restriction(name, restr):
    comps = name.split(".")
    for alt in restr.split(","):
        groups = [g.split(".") for g in alt.strip().split("..")]
        pos, ok = 0, True
        for g in groups:
            found = None
            for i in range(pos, len(comps) - len(g) + 1):
                if comps[i:i + len(g)] == g:
                    found = i
                    break
            if found is None:
                ok = False
                break
            pos = found + len(g)
        if ok:
            return True
    return False


def admits(restr_lines, variant_form):
    for line in (restr_lines or "").splitlines():
        line = line.strip()
        if not line:
            continue
        kind, _, rest = line.partition(" ")
        hit = match_restriction(variant_form, rest.replace(" ", ""))
        if kind == "only" and not hit:
            return False
        if kind == "no" and hit:
            return False
    return True


def strip_set(name):
    for s in MAIN_SETS:
        if name.startswith(s + "."):
            return name[len(s) + 1:]
    return name


def declared(facts, universe):
    """universe: list of {"name", "restrs"} of the flat variants under the set `all` (pure Cartesian parse)."""
    errs = []
    nodes = facts["nodes"]
    by_name = {n["name"]: n for n in nodes}
    clone_of = {}
    for n in nodes:
        for c in n["clones"]:
            clone_of[c] = n["name"]
    for n in nodes:
        if n["flat"] or n["shared_root"]:
            continue
        is_clone = n["name"] in clone_of
        for o in n["objects"]:
            if o["key"] == "nets":
                continue
            actual = sorted(p for p, objs in n["setup"].items() if o["long_suffix"] in objs and not by_name.get(p, {}).get("shared_root") and not by_name.get(p, {}).get("flat"))
            if not o["get"]:
                if actual:
                    errs.append(("spurious", f"{n['name']} declares no dependency for {o['long_suffix']} but has parents {actual[:2]}"))
                continue
            vm_suffix = o["long_suffix"].split("_")[-1]
            vm_form = next((x["form"] for x in n["objects"] if x["key"] == "vms" and x["suffix"] == vm_suffix), o["form"])
            producers = []
            for u in universe:
                if not match_restriction(u["name"], "all.." + o["get"]):
                    continue
                if not admits(u["restrs"].get(vm_suffix, ""), vm_form):
                    continue
                producers.append(u["name"])
            exp_prefixes = [strip_set(pn) for pn in producers]
            if n["clone_source"]:
                # one clone per producer, each attached to its own producer
                clones = [by_name[c] for c in n["clones"] if c in by_name]
                via = []
                for c in clones:
                    cps = [p for p, objs in c["setup"].items() if o["long_suffix"] in objs]
                    via += cps
                if len(exp_prefixes) > 1:
                    covered = {ep for ep in exp_prefixes if any(strip_set(v).startswith(ep + ".") for v in via)}
                    if len(covered) != len(exp_prefixes) and via:
                        # the cloning may have happened through another object of this node: only then fewer are fine
                        if any(len([p for p, objs in c["setup"].items() if o["long_suffix"] in objs]) != 1 for c in clones):
                            errs.append(("clone-parents", f"clones of {n['name']} do not have exactly one parent each for {o['long_suffix']}"))
                continue
            if not producers:
                errs.append(("no-producer", f"{n['name']} requires '{o['get']}' for {o['long_suffix']} which no configured variant provides (actual parents {actual})"))
                continue
            if len(actual) == 0:
                errs.append(("missing", f"{n['name']} declares get={o['get']} for {o['long_suffix']} but has no parent for it (declared producers: {exp_prefixes[:3]})"))
                continue
            if len(actual) > 1:
                errs.append(("duplicated", f"{n['name']} has {len(actual)} parents for {o['long_suffix']}: {actual[:3]}"))
            for a in actual:
                sa = strip_set(a)
                hit = [ep for ep in exp_prefixes if sa.startswith(ep + ".") or _clone_match(sa, ep)]
                if not hit:
                    errs.append(("spurious", f"{n['name']}: parent {a} for {o['long_suffix']} is not among the declared producers of '{o['get']}' ({exp_prefixes[:3]})"))
                    continue
                p = by_name.get(a)
                if p and not any(x["id"] == o["id"] for x in p["objects"]):
                    errs.append(("wrong-object", f"{n['name']}: parent {a} does not work on the same {o['long_suffix']} variant"))
                if p and p["nets"] != n["nets"]:
                    errs.append(("wrong-worker", f"{n['name']}: parent {a} belongs to worker {p['nets']}"))
            if len(exp_prefixes) > 1 and not is_clone and len(actual) == 1:
                errs.append(("not-cloned", f"{n['name']} resolves '{o['get']}' for {o['long_suffix']} to {len(exp_prefixes)} producers {exp_prefixes} but was not cloned per producer"))
    # clone consistency: one clone per parent, branch specific state names, dependants cloned as well
    for n in nodes:
        if not n["clone_source"] or n["flat"]:
            continue
        clones = [by_name[c] for c in n["clones"] if c in by_name]
        if len(clones) != len(n["clones"]):
            errs.append(("clone-missing", f"clones of {n['name']} are not all in the graph"))
        if len({c["name"] for c in clones}) != len(clones):
            errs.append(("clone-duplicate", f"clones of {n['name']} are not distinct"))
        for child_name in n["cleanup"]:
            ch = by_name.get(child_name)
            if ch and not ch["flat"] and not ch["clone_source"]:
                errs.append(("dependant-not-cloned", f"{child_name} depends on the clone source {n['name']} but was not cloned itself"))
    # shared setup is represented once per worker
    seen = collections.Counter()
    for n in nodes:
        if n["flat"] or n["shared_root"]:
            continue
        first = strip_set(n["name"])
        # setup in the wide sense: the internal setup tests and every test another test depends on
        if first.startswith(("internal.", "original.")) or n["cleanup"]:
            seen[(n["nets"], first)] += 1
    total = collections.Counter((n["nets"], strip_set(n["name"])) for n in nodes if not n["flat"] and not n["shared_root"])
    for (w, nm), c in seen.items():
        if total[(w, nm)] > 1:
            errs.append(("setup-duplicated", f"setup {nm} is represented {total[(w, nm)]} times for worker {w}"))
    return errs


def _clone_match(actual_setless, expected_prefix):
    """A cloned producer carries branch state names inserted before '.vms.'; compare with those removed."""
    head = actual_setless.split(".vms.")[0]
    return head.startswith(expected_prefix + ".") or head == expected_prefix


# ------------------------------------------------------------------------------------------------
# C09 static: equivalent linked copies
# ------------------------------------------------------------------------------------------------
def worker_invariant(name, worker_name):
    return re.sub(r"\.nets\.[^.]+\.[^.]+", "", name)


def copies(facts):
    errs = []
    nodes = [n for n in facts["nodes"] if not n["flat"] and not n["shared_root"]]
    by_name = {n["name"]: n for n in facts["nodes"]}
    per_worker = collections.defaultdict(dict)
    for n in nodes:
        per_worker[n["nets"]][strip_set(worker_invariant(n["name"], n["nets"]))] = n
    workers = sorted(per_worker)
    restrs = {w: facts["workers"].get(w, {}).get("restrs", {}) for w in workers}

    def allowed(wi_name, node, w):
        for vm, r in restrs[w].items():
            for o in node["objects"]:
                if o["key"] == "vms" and o["suffix"] == vm and not admits(r, o["form"]):
                    return False
        return True

    for a in workers:
        for b in workers:
            if a == b:
                continue
            for wi, n in per_worker[a].items():
                if wi in per_worker[b]:
                    m = per_worker[b][wi]
                    ea = sorted((strip_set(worker_invariant(p, a)), tuple(objs)) for p, objs in n["setup"].items() if not by_name.get(p, {}).get("flat") and not by_name.get(p, {}).get("shared_root"))
                    eb = sorted((strip_set(worker_invariant(p, b)), tuple(objs)) for p, objs in m["setup"].items() if not by_name.get(p, {}).get("flat") and not by_name.get(p, {}).get("shared_root"))
                    if ea != eb and not (n["clone_source"] or m["clone_source"]):
                        errs.append(("edges-differ", f"{wi}: dependencies differ between workers {a} and {b}: {ea[:2]} vs {eb[:2]}"))
                    if m["name"] not in n["bridged"]:
                        errs.append(("not-linked", f"{n['name']} is not linked to its equivalent {m['name']}"))
                    if n["name"] not in m["bridged"]:
                        errs.append(("link-asymmetric", f"{m['name']} is not linked back to {n['name']}"))
                    if n["regs"] != m["regs"]:
                        errs.append(("bookkeeping-not-shared", f"{n['name']} and {m['name']} do not share their visit bookkeeping"))
                    if n["clone_source"] != m["clone_source"]:
                        errs.append(("clone-differs", f"{wi}: clone source on {a} but not on {b}"))
                elif allowed(wi, n, b):
                    errs.append(("copy-missing", f"worker {b} lacks a copy of {wi} although its restrictions admit it"))
    for n in nodes:
        for bn in n["bridged"]:
            m = by_name.get(bn)
            if m is None:
                errs.append(("link-dangling", f"{n['name']} linked to unknown {bn}"))
                continue
            if worker_invariant(m["name"], m["nets"]) != worker_invariant(n["name"], n["nets"]) and strip_set(worker_invariant(m["name"], "")) != strip_set(worker_invariant(n["name"], "")):
                errs.append(("link-wrong", f"{n['name']} linked to non-equivalent {bn}"))
            if m["nets"] == n["nets"] and m["name"] != n["name"] and strip_set(m["name"]) != strip_set(n["name"]):
                errs.append(("link-same-worker", f"{n['name']} linked to {bn} of the same worker"))
    return errs
