"""CLI: /venv/bin/python -m vt.run <Cxx> --tier quick|thorough [--replay <file>]   (cwd = /verif)."""
from __future__ import annotations

import argparse
import importlib
import os
import sys
import traceback


def main(argv=None) -> int:
    ap = argparse.ArgumentParser()
    ap.add_argument("prop")
    ap.add_argument("--tier", default=os.environ.get("VERIF_TIER", "quick"), choices=["quick", "thorough"])
    ap.add_argument("--replay", default=None)
    args = ap.parse_args(argv)
    os.environ.setdefault("PYTHONHASHSEED", "0")
    os.environ.setdefault("PYTHONDONTWRITEBYTECODE", "1")
    sys.dont_write_bytecode = True
    seed = int(os.environ.get("VERIF_SEED", "0") or 0)
    from vt import common

    try:
        mod = importlib.import_module(f"vt.checks.{args.prop.lower()}")
        if args.replay:
            return mod.replay(args.replay)
        return mod.run(args.tier, seed)
    except common.HarnessError as e:
        print(f"HARNESS-ERROR property={args.prop}: {e}")
        return common.EXIT_HARNESS
    except Exception:
        traceback.print_exc()
        print(f"HARNESS-ERROR property={args.prop}: unexpected exception in the check itself")
        return common.EXIT_HARNESS


if __name__ == "__main__":
    # PYTHONHASHSEED must be fixed before the interpreter starts: re-exec once if it is not
    if os.environ.get("PYTHONHASHSEED") != "0":
        os.environ["PYTHONHASHSEED"] = "0"
        os.execv(sys.executable, [sys.executable, "-m", "vt.run"] + sys.argv[1:])
    sys.exit(main())
