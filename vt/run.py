"""CLI: /venv/bin/python -m vt.run <Cxx> --tier quick|thorough [--replay <file>]   (cwd = /verif)."""
from __future__ import annotations

import argparse
import importlib
import os
import sys
import traceback


def main(argv=None) -> int:
    ap = argparse.ArgumentParser()
    ap.add_argument("prop")
    ap.add_argument("--tier", default=os.environ.get("VERIF_TIER", "quick"), choices=["quick", "thorough"])
    ap.add_argument("--replay", default=None)
    args = ap.parse_args(argv)
    os.environ.setdefault("PYTHONHASHSEED", "0")
    os.environ.setdefault("PYTHONDONTWRITEBYTECODE", "1")
    sys.dont_write_bytecode = True
    seed = int(os.environ.get("VERIF_SEED", "0") or 0)
    from vt import common

    try:
        mod = importlib.import_module(f"vt.checks.{args.prop.lower()}")
        if args.replay:
            return mod.replay(args.replay)
        return mod.run(args.tier, seed)
    except common.HarnessError as e:
        print(f"HARNESS-ERROR property={args.prop}: {e}")
        return common.EXIT_HARNESS
    except Exception as e:
        traceback.print_exc()
        # an exception raised by the code under test on an input of the enumeration that no oracle anticipated: the check cannot continue, but
        # what it found is a failure of the repository's code, not of the harness (interface drift - a missing attribute or module - stays a
        # harness error: the harness, not the property, is then out of date)
        frames = traceback.extract_tb(e.__traceback__)
        repo = os.path.realpath(os.environ.get("VERIF_REPO", "/repo"))
        inner = os.path.realpath(frames[-1].filename) if frames else ""
        if inner.startswith(os.path.join(repo, "avocado_i2n")) and not isinstance(e, (ImportError, AttributeError, NameError)) and not args.replay:
            rep = common.Report(args.prop, args.tier, seed, "aborted: the code under test raised on an enumerated input (no further exploration in this run)")
            rep.rule = "none: the run ended at the first unanticipated exception of the code under test"
            rep.exhaustive = False
            last_harness = next((f for f in reversed(frames) if "/vt/" in f.filename), None)
            rep.violation(f"the code under test raised {type(e).__name__}: {str(e)[:300]} (at {os.path.relpath(inner, repo)}:{frames[-1].lineno}, "
                          f"driven from {os.path.basename(last_harness.filename) if last_harness else '?'}:{last_harness.lineno if last_harness else 0})",
                          {"traceback": traceback.format_exception(type(e), e, e.__traceback__)[-12:]},
                          {"kind": "unanticipated-exception", "type": type(e).__name__, "where": os.path.relpath(inner, repo)})
            return rep.finish()
        print(f"HARNESS-ERROR property={args.prop}: unexpected exception in the check itself")
        return common.EXIT_HARNESS


if __name__ == "__main__":
    # PYTHONHASHSEED must be fixed before the interpreter starts: re-exec once if it is not
    if os.environ.get("PYTHONHASHSEED") != "0":
        os.environ["PYTHONHASHSEED"] = "0"
        os.execv(sys.executable, [sys.executable, "-m", "vt.run"] + sys.argv[1:])
    sys.exit(main())
