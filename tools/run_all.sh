#!/bin/bash
# usage: run_all.sh [tier] [seed]  — runs every registered check on the current tree, prints one line per check
TIER=${1:-quick}; export VERIF_SEED=${2:-0}
cd /verif
for c in $(jq -r '.checks[].property_id' MANIFEST.json); do
  s=$(date +%s); out=$(/venv/bin/python -m vt.run $c --tier $TIER 2>&1); rc=$?; e=$(date +%s)
  echo "$c rc=$rc $((e-s))s $(echo "$out" | grep "^\[$c\]" | cut -c1-150) $(echo "$out" | grep -c '^KNOWN-FINDING') known-lines"
  if [ $rc -ne 0 ]; then echo "$out" | grep -v WARNING | tail -5 | cut -c1-300; fi
done
