#!/bin/bash
# usage: run_seeds.sh [tier] [seed-dir...]  — runs every seeded change against the check of its property and records whether it was detected
TIER=${1:-quick}; shift
cd /verif
DIRS=${@:-seeded/*/}
for d in $DIRS; do
  d=${d%/}; id=$(basename $d); prop=${id%%-*}
  [ -f $d/patch.diff ] || continue
  out=$(tools/with_mutant.sh $d /venv/bin/python -m vt.run $prop --tier $TIER 2>&1); rc=$?
  nviol=$(echo "$out" | grep -c "^VIOLATION")
  first=$(echo "$out" | grep -A1 "^VIOLATION" | grep "what:" | head -1 | cut -c1-300)
  python3 - "$d" "$prop" "$TIER" "$rc" "$nviol" "$first" <<'PY'
import sys, json, os, subprocess
d, prop, tier, rc, nviol, first = sys.argv[1:7]
rec = {"property": prop, "check": f"/venv/bin/python -m vt.run {prop} --tier {tier}", "exit_code": int(rc), "violation_lines": int(nviol), "detected": int(rc) == 1 and int(nviol) > 0,
       "first_violation": first.strip(), "verif_commit": subprocess.run(["git", "-C", "/verif", "rev-parse", "--short", "HEAD"], capture_output=True, text=True).stdout.strip(),
       "repo_commit": subprocess.run(["git", "-C", "/repo", "rev-parse", "--short", "HEAD"], capture_output=True, text=True).stdout.strip()}
json.dump(rec, open(os.path.join(d, "detection.json"), "w"), indent=1)
print(f"{os.path.basename(d)}: detected={rec['detected']} rc={rc} violations={nviol}")
PY
done
