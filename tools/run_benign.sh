#!/bin/bash
# usage: run_benign.sh [tier] [benign-dir...] — behaviour-preserving refactorings: every check must stay silent (rc=0, no VIOLATION) on each
TIER=${1:-quick}; shift
cd /verif
DIRS=${@:-benign/*/}
for d in $DIRS; do
  d=${d%/}; [ -f $d/patch.diff ] || continue
  res="{}"
  out=$(tools/with_mutant.sh $d bash -c 'for c in $(jq -r ".checks[].property_id" /verif/MANIFEST.json); do o=$(/venv/bin/python -m vt.run $c --tier '$TIER' 2>&1); rc=$?; echo "CHECK $c rc=$rc violations=$(echo "$o" | grep -c "^VIOLATION")"; if [ $rc -ne 0 ]; then echo "$o" | grep -v WARNING | grep -A1 "^VIOLATION\|HARNESS" | head -6 | cut -c1-400; fi; done' 2>&1)
  echo "$out" > $d/silence.log
  bad=$(echo "$out" | grep "^CHECK" | grep -v "rc=0 violations=0" | wc -l)
  echo "$(basename $d): checks=$(echo "$out" | grep -c '^CHECK') not-silent=$bad"
  echo "$out" | grep "^CHECK" | grep -v "rc=0 violations=0"
done
