#!/bin/bash
# usage: with_mutant.sh <seed-dir> <command...>  — runs the command with VERIF_REPO pointing at a scratch worktree with the seed's patch applied
SD=$(realpath "$1"); shift; NAME=$(basename "$SD"); WT=/tmp/mut/$NAME-$$
mkdir -p /tmp/mut; git -C /repo worktree add -q --detach $WT HEAD || exit 2
( cd $WT && git apply $SD/patch.diff ) || { echo "patch does not apply"; git -C /repo worktree remove --force $WT; exit 3; }
VERIF_REPO=$WT "$@"; RC=$?
git -C /repo worktree remove --force $WT
exit $RC
