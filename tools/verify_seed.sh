#!/bin/bash
# usage: verify_seed.sh <seed-dir> [nosuite]   — confirms a seeded change: demo passes without / fails with the patch, suite passes with it
set -u
SD=$(realpath "$1"); NAME=$(basename "$SD"); WT=/tmp/vs/$NAME; LOG=$SD/verify.log
DEMO=$(ls $SD/demo*.py | head -1)
mkdir -p /tmp/vs /tmp/vs/$NAME-home; export HOME=/tmp/vs/$NAME-home
git -C /repo worktree remove --force $WT 2>/dev/null; rm -rf $WT
git -C /repo worktree add -q --detach $WT HEAD || exit 2
{
echo "== $(date) verifying $NAME against /repo HEAD $(git -C /repo rev-parse --short HEAD)"
cd $WT
timeout 900 /venv/bin/python $DEMO > /tmp/vs/$NAME.demo0 2>&1; R0=$?
echo "demo without patch: exit $R0"
git apply $SD/patch.diff || { echo "PATCH DOES NOT APPLY"; exit 3; }
timeout 900 /venv/bin/python $DEMO > /tmp/vs/$NAME.demo1 2>&1; R1=$?
echo "demo with patch: exit $R1"; tail -3 /tmp/vs/$NAME.demo1
if [ "${2:-}" != "nosuite" ]; then
  timeout 3000 /venv/bin/python -m pytest -q -p no:cacheprovider --timeout=900 --continue-on-collection-errors -n 6 > /tmp/vs/$NAME.suite 2>&1
  echo "suite with patch: $(tail -1 /tmp/vs/$NAME.suite)"
  grep -E "^FAILED" /tmp/vs/$NAME.suite | head
fi
if [ $R0 -eq 0 ] && [ $R1 -ne 0 ]; then echo "RESULT: demo OK"; else echo "RESULT: demo BAD"; fi
} > $LOG 2>&1
cd /; git -C /repo worktree remove --force $WT; rm -rf /tmp/vs/$NAME-home /tmp/vs/$NAME.demo0 /tmp/vs/$NAME.demo1 /tmp/vs/$NAME.suite
cat $LOG
